package main

import (
	"fmt"
	"go/token"
	"go/types"
	"strings"

	"golang.org/x/tools/go/ssa"
)

func shortType(t types.Type) string {
	return types.TypeString(t, func(p *types.Package) string { return p.Name() })
}

func (tr *fnTrans) call(in *ssa.Call) {
	cm := in.Common()
	var args []Term
	if cm.IsInvoke() {
		recv := tr.val(cm.Value)
		it := shortType(cm.Value.Type())
		key := it + "." + cm.Method.Name()
		c := tr.v.contracts[key]
		if c == nil && recv.T != nil && recv.T.Name == "Int" && recv.T.Elem != nil && strings.HasPrefix(recv.T.Elem.Name, "S_") {
			// interface modelled by its unique pointer implementation: use the method's own contract
			parts := strings.SplitN(strings.TrimPrefix(recv.T.Elem.Name, "S_"), "_", 2)
			if len(parts) == 2 {
				k2 := parts[0] + "." + parts[1] + "." + cm.Method.Name()
				if c2 := tr.v.contracts[k2]; c2 != nil {
					key, c = k2, c2
				}
			}
		}
		if c == nil {
			tr.errorf("no contract for interface method %s (called in %s)", key, tr.key)
			tr.havocResult(in)
			return
		}
		tr.safe("nil", not(app("=", recv.S, zeroOf(recv.T))), in.Pos())
		args = append(args, recv)
		for _, a := range cm.Args {
			args = append(args, tr.val(a))
		}
		tr.applyContract(in, c, key, args)
		return
	}
	for _, a := range cm.Args {
		args = append(args, tr.val(a))
	}
	switch f := cm.Value.(type) {
	case *ssa.Builtin:
		tr.builtin(in, f.Name(), args)
	case *ssa.Function:
		key := fnKey(f)
		c := tr.v.contracts[key]
		if c == nil && len(cm.Args) > 0 {
			// contract specialised by the dynamic type of an interface argument: key[pkg.Type]
			if mi, ok := cm.Args[0].(*ssa.MakeInterface); ok {
				k2 := key + "[" + shortType(mi.X.Type()) + "]"
				if c2 := tr.v.contracts[k2]; c2 != nil {
					key, c = k2, c2
					args[0] = tr.val(mi.X)
				}
			}
		}
		if c == nil {
			tr.errorf("no contract for callee %s (called in %s)", key, tr.key)
			tr.havocResult(in)
			return
		}
		if f == tr.fn && c.Dec != nil {
			// direct recursion: measure decreases
			env := tr.env()
			for i, p := range c.Params {
				env.vars[p] = args[i]
			}
			d1, err1 := tr.spec(c.Dec.E, env)
			d0, err0 := tr.spec(c.Dec.E, tr.entryEnv)
			if err0 != nil || err1 != nil {
				tr.errorf("%s: decreases: %v %v", tr.key, err0, err1)
			} else {
				tr.counters["rec"]++
				tr.oblige("dec", fmt.Sprintf("dec[rec#%d]", tr.counters["rec"]), and(app("<=", "0", d0.S), app("<", d1.S, d0.S)), c.Dec.Src, in.Pos())
			}
		} else if f == tr.fn && !tr.dry {
			tr.errorf("%s: recursive call without decreases clause", tr.key)
		}
		tr.applyContract(in, c, key, args)
	case *ssa.MakeClosure:
		tr.errorf("unsupported-construct: call of closure in %s", tr.key)
		tr.havocResult(in)
	default:
		// call through a function value: assumed/proved contract of the function type
		key := "call." + shortType(cm.Value.Type())
		c := tr.v.contracts[key]
		if c == nil {
			tr.errorf("no contract for calls through values of type %s (in %s)", shortType(cm.Value.Type()), tr.key)
			tr.havocResult(in)
			return
		}
		fv := tr.val(cm.Value)
		tr.safe("nilfn", not(app("=", fv.S, "Fn_nil")), in.Pos())
		tr.applyContract(in, c, key, append([]Term{fv}, args...))
	}
}

func (tr *fnTrans) havocResult(in *ssa.Call) {
	res := in.Common().Signature().Results()
	if res.Len() == 0 {
		return
	}
	var ts []Term
	for i := 0; i < res.Len(); i++ {
		s, err := tr.v.sortOf(res.At(i).Type())
		if err != nil || s == nil {
			s = SInt
		}
		n := tr.declare(tr.fresh(tr.vname(in)+"_r"), s)
		ts = append(ts, T(n, s))
	}
	if len(ts) == 1 {
		tr.vals[in] = ts[0]
	} else {
		tr.tuples[in] = ts
	}
}

// applyContract: assert requires, havoc the heap modulo the frame, assume ensures.
func (tr *fnTrans) applyContract(in *ssa.Call, c *Contract, key string, args []Term) {
	rts := tr.applyContractSig(c, key, args, in.Common().Signature(), tr.vname(in), in.Pos(), func() { tr.havocResult(in) })
	if len(rts) == 1 {
		tr.vals[in] = rts[0]
	} else if len(rts) > 1 {
		tr.tuples[in] = rts
	}
	in0 := "true"
	if tr.cur != nil {
		in0 = tr.inB[tr.cur]
	}
	tr.applyHints("after:", key, tr.counters["call:"+key], in0, in.Pos())
}

func (tr *fnTrans) applyContractSig(c *Contract, key string, args []Term, sig *types.Signature, vname string, pos token.Pos, onError func()) []Term {
	c.used = true
	if c.Extern || c.Trusted {
		tr.assumed[key] = true
	}
	newUse := false
	for _, u := range c.Uses {
		if !tr.uses[u] {
			newUse = true
		}
		tr.uses[u] = true
	}
	if newUse {
		tr.preludeHeaps(c.Uses) // the callee's specification modules may mention heaps this function never touches
	}
	in0 := "true"
	if tr.cur != nil {
		in0 = tr.inB[tr.cur]
	}
	if len(c.Params) != len(args) {
		tr.errorf("contract %s binds %d parameters, call in %s passes %d", key, len(c.Params), tr.key, len(args))
		onError()
		return nil
	}
	pre := tr.env()
	pre.vars = map[string]Term{}
	for i, p := range c.Params {
		a := args[i]
		if a.T == nil {
			// typed nil by the callee's parameter type
			var pt types.Type
			off := len(args) - sig.Params().Len()
			if i-off >= 0 && i-off < sig.Params().Len() {
				pt = sig.Params().At(i - off).Type()
			}
			if pt != nil {
				if s, err := tr.v.sortOf(pt); err == nil && s != nil {
					a = T(tr.nilOf(s), s)
				}
			}
		}
		pre.vars[p] = a
	}
	tr.counters["call:"+key]++
	k := tr.counters["call:"+key]
	// hints: facts about the state just before this call, proved and then assumed
	tr.applyHints("", key, k, in0, pos)
	for i, r := range c.Requires {
		t, err := tr.spec(r.E, pre)
		if err != nil {
			tr.errorf("%s: requires of %s: %s: %v", tr.key, key, r.Src, err)
			continue
		}
		tr.oblige("pre", fmt.Sprintf("pre[%s#%d:%s]", key, k, labelOr(r.Label, i)), t.S, r.Src, pos)
		tr.hyp(implies(in0, t.S))
	}
	// results
	res := sig.Results()
	var rts []Term
	for i := 0; i < res.Len(); i++ {
		s, err := tr.v.sortOf(res.At(i).Type())
		if err != nil || s == nil {
			tr.errorf("result sort of %s: %v", key, err)
			s = SInt
		}
		name := vname
		if res.Len() > 1 {
			name = fmt.Sprintf("%s_%d", name, i)
		}
		tr.declare(name, s)
		rts = append(rts, T(name, s))
	}
	if len(c.Results) != len(rts) {
		tr.errorf("contract %s binds %d results, callee returns %d", key, len(c.Results), len(rts))
	}
	oldHeap := map[string]string{}
	for k, v := range tr.heap {
		oldHeap[k] = v
	}
	if !c.Pure {
		var mods []modTarget
		for _, m := range c.Modifies {
			tr.modTargets(m, pre, &mods)
		}
		// dry translation of the postconditions to discover heap maps
		post0 := tr.env()
		post0.vars = map[string]Term{}
		for k, v := range pre.vars {
			post0.vars[k] = v
		}
		for i, n := range c.Results {
			if i < len(rts) {
				post0.vars[n] = rts[i]
			}
		}
		post0.oldHeap = oldHeap
		for _, e := range c.Ensures {
			tr.spec(e.E, post0)
		}
		allocPre := tr.alloc
		if !c.NoAlloc {
			newAlloc := tr.declare(tr.fresh("alloc"), SInt)
			tr.hyp(app("<=", allocPre, newAlloc))
			tr.alloc = newAlloc
			tr.bump("*")
		}
		for _, m := range tr.mapOrder {
			if c.NoAlloc {
				hit := false
				for _, mt := range mods {
					if mt.heap == m {
						hit = true
					}
				}
				if !hit {
					continue
				}
			}
			h0 := tr.curHeap(m)
			n := tr.fresh(m)
			tr.decl(fmt.Sprintf("(declare-const %s %s)", n, heapSortName(tr.maps[m])))
			tr.heap[m] = n
			tr.hyp(tr.frameFormula(m, h0, n, allocPre, mods))
			tr.atStep(m, h0, n, tr.touchedByMods(allocPre, m, mods), tr.touchedByMods(allocPre, m, mods))
		}
		tr.typedMapFacts(tr.alloc)
	}
	post := tr.env()
	post.vars = map[string]Term{}
	for k, v := range pre.vars {
		post.vars[k] = v
	}
	for i, n := range c.Results {
		if i < len(rts) {
			post.vars[n] = rts[i]
		}
	}
	post.oldHeap = oldHeap
	for _, rt := range rts {
		tr.hyp(implies(in0, tr.wf(rt, tr.alloc)))
	}
	for i, e := range c.Ensures {
		if tr.v.knownClause[fmt.Sprintf("%s/post[%s]", key, labelOr(e.Label, i))] {
			continue // a clause listed as a known finding is false for the real code: never assumed
		}
		t, err := tr.spec(e.E, post)
		if err != nil {
			tr.errorf("%s: ensures of %s: %s: %v", tr.key, key, e.Src, err)
			continue
		}
		tr.hyp(implies(in0, t.S))
	}
	return rts
}

func (tr *fnTrans) applyHints(prefix, key string, k int, in0 string, pos token.Pos) {
	if tr.c == nil {
		return
	}
	short := key
	if i := strings.Index(short, "."); i >= 0 {
		short = short[i+1:]
	}
	for _, site := range []string{fmt.Sprintf("%s%s#%d", prefix, key, k), fmt.Sprintf("%s%s#%d", prefix, short, k)} {
		if len(tr.c.Hints[site]) > 0 {
			if tr.hintSeen == nil {
				tr.hintSeen = map[string]bool{}
			}
			tr.hintSeen[site] = true
		}
		for i, h := range tr.c.Hints[site] {
			henv := tr.env()
			henv.oldHeap = map[string]string{}
			if tr.cur != nil {
				le := tr.loopEnv(&loopInfo{header: tr.cur, inclSelf: true}, func(p *ssa.Phi) Term { return tr.vals[p] }, henv.heap, tr.alloc)
				for n, v := range le.vars {
					if _, isParam := henv.vars[n]; !isParam {
						henv.vars[n] = v
					}
				}
			}
			t, err := tr.spec(h.E, henv)
			if err != nil {
				if strings.Contains(err.Error(), "unknown identifier") {
					tr.warns = append(tr.warns, fmt.Sprintf("%s: hint at %s skipped: %v", tr.key, site, err))
					continue // the hint speaks about locals that do not exist at this call site
				}
				tr.errorf("%s: hint %s: %v", tr.key, h.Src, err)
				continue
			}
			tr.oblige("hint", fmt.Sprintf("hint[%s:%s]", site, labelOr(h.Label, i)), t.S, h.Src, pos)
			tr.hyp(implies(in0, t.S))
		}
	}
}

func (tr *fnTrans) builtin(in *ssa.Call, name string, args []Term) {
	switch name {
	case "len":
		if args[0].T == SStr {
			tr.setVal(in, SInt, app("slen", args[0].S))
		} else if args[0].T.Name == "Slice" {
			tr.setVal(in, SInt, slLen(args[0].S))
		} else {
			tr.errorf("unsupported-construct: len of %s", args[0].T.Name)
		}
	case "cap":
		tr.setVal(in, SInt, slCap(args[0].S))
	case "append":
		tr.appendOp(in, args[0], args[1])
	case "copy":
		tr.copyOp(in, args[0], args[1])
	default:
		tr.errorf("unsupported-construct: builtin %s in %s", name, tr.key)
	}
}

func staticLen(v ssa.Value) (int64, bool) {
	if sl, ok := v.(*ssa.Slice); ok && sl.Low == nil && sl.High == nil {
		if pt, ok := sl.X.Type().Underlying().(*types.Pointer); ok {
			if at, ok := pt.Elem().Underlying().(*types.Array); ok {
				return at.Len(), true
			}
		}
	}
	return 0, false
}

func (tr *fnTrans) appendOp(in *ssa.Call, s, xs Term) {
	rs := tr.sortOfV(in)
	if xs.T == SStr { // append([]byte, string...)
		tr.errorf("unsupported-construct: append of string in %s", tr.key)
		return
	}
	if xs.T == nil { // append(s, nil...)
		tr.vals[in] = T(s.S, rs)
		return
	}
	if s.T == nil {
		s = T("Slice_nil", rs)
	}
	es := rs.Elem
	name := "A_" + es.Tag()
	tr.touchHeap(name, es, true)
	A := tr.curHeap(name)
	in0 := tr.inB[tr.cur]
	ln := slLen(s.S)
	id := tr.allocId()
	newcap := tr.declare(tr.fresh("cap"), SInt)
	n, static := staticLen(in.Common().Args[1])
	if static && n <= 4 {
		nl := app("+", ln, intLit(n))
		tr.hyp(app(">=", newcap, nl))
		inplace := tr.define(tr.fresh("inplace"), SBool, app("<=", nl, slCap(s.S)))
		tr.constVal(in, rs, ite(inplace, mkSlice(slArr(s.S), slOff(s.S), nl, slCap(s.S)), mkSlice(id, "0", nl, newcap)))
		row := sel(A, slArr(s.S))
		newarr := tr.fresh("newarr")
		tr.decl(fmt.Sprintf("(declare-const %s (Array Int %s))", newarr, es.Name))
		fresh := newarr
		for j := int64(0); j < n; j++ {
			x := sel(sel(A, slArr(xs.S)), app("+", slOff(xs.S), intLit(j)))
			row = store(row, app("+", slOff(s.S), ln, intLit(j)), x)
			fresh = store(fresh, app("+", ln, intLit(j)), x)
		}
		tr.hyp(implies(in0, fmt.Sprintf("(forall ((k!a Int)) (! (=> (and (<= 0 k!a) (< k!a %s)) (= (select %s k!a) (select (select %s %s) (+ %s k!a)))) :pattern ((select %s k!a))))",
			ln, newarr, A, slArr(s.S), slOff(s.S), newarr)))
		tr.setHeap(name, ite(inplace, store(A, slArr(s.S), row), store(A, id, fresh)))
		// consequences stated over at_<sort> terms (both directions as triggers)
		at := "at_" + es.Tag()
		A2 := tr.curHeap(name)
		tr.atStep(name, A, A2, or(app("=", "(sarr s!s)", id), and(app("=", "(sarr s!s)", slArr(s.S)),
			app(">=", "(+ (soff s!s) k!s)", app("+", slOff(s.S), ln)), app("<", "(+ (soff s!s) k!s)", app("+", slOff(s.S), nl)))),
			or(app("=", "(sarr s!s)", id), and(app("=", "(sarr s!s)", slArr(s.S)), app(">", app("+", "(soff s!s)", "(slen_ s!s)"), app("+", slOff(s.S), ln)))))
		r := tr.vals[in].S
		tr.hyp(implies(in0, fmt.Sprintf("(forall ((k!a Int)) (! (=> (and (<= 0 k!a) (< k!a %s)) (= (%s %s %s k!a) (%s %s %s k!a))) :pattern ((%s %s %s k!a)) :pattern ((%s %s %s k!a))))",
			ln, at, A2, r, at, A, s.S, at, A2, r, at, A, s.S)))
		for j := int64(0); j < n; j++ {
			tr.hyp(implies(in0, app("=", app(at, A2, r, app("+", ln, intLit(j))), app(at, A, xs.S, intLit(j)))))
		}
		if es == SCur && n == 1 {
			x := app(at, A, xs.S, "0")
			m1 := fmt.Sprintf("(forall ((n!a Cursor)) (! (= (mem %s %s n!a) (or (mem %s %s n!a) (= n!a %s))) :pattern ((mem %s %s n!a)) :pattern ((mem %s %s n!a))))", A2, r, A, s.S, x, A2, r, A, s.S)
			tr.hyp(implies(in0, m1))
			tr.items[len(tr.items)-1].needs = "mem"
		}
		return
	}
	// general case
	nn := slLen(xs.S)
	nl := app("+", ln, nn)
	tr.hyp(app(">=", newcap, nl))
	inplace := tr.define(tr.fresh("inplace"), SBool, app("<=", nl, slCap(s.S)))
	r := tr.constVal(in, rs, ite(inplace, mkSlice(slArr(s.S), slOff(s.S), nl, slCap(s.S)), mkSlice(id, "0", nl, newcap)))
	A1 := tr.fresh(name)
	tr.decl(fmt.Sprintf("(declare-const %s %s)", A1, heapSortName(tr.maps[name])))
	tr.heap[name] = A1
	tr.bump(name)
	ra, ro := slArr(r.S), slOff(r.S)
	tr.hyp(implies(in0, fmt.Sprintf("(forall ((a!a Int)) (! (=> (not (= a!a %s)) (= (select %s a!a) (select %s a!a))) :pattern ((select %s a!a))))", ra, A1, A, A1)))
	tr.hyp(implies(in0, fmt.Sprintf("(forall ((k!a Int)) (! (=> (and (<= 0 k!a) (< k!a %s)) (= (select (select %s %s) (+ %s k!a)) (select (select %s %s) (+ %s k!a)))) :pattern ((select (select %s %s) (+ %s k!a)))))",
		ln, A1, ra, ro, A, slArr(s.S), slOff(s.S), A1, ra, ro)))
	tr.hyp(implies(in0, fmt.Sprintf("(forall ((j!a Int)) (! (=> (and (<= 0 j!a) (< j!a %s)) (= (select (select %s %s) (+ %s %s j!a)) (select (select %s %s) (+ %s j!a)))) :pattern ((select (select %s %s) (+ %s j!a)))))",
		nn, A1, ra, ro, ln, A, slArr(xs.S), slOff(xs.S), A, slArr(xs.S), slOff(xs.S))))
	tr.atStep(name, A, A1, or(app("=", "(sarr s!s)", id), and(app("=", "(sarr s!s)", slArr(s.S)),
		app(">=", "(+ (soff s!s) k!s)", app("+", slOff(s.S), ln)), app("<", "(+ (soff s!s) k!s)", app("+", slOff(s.S), nl)))),
		or(app("=", "(sarr s!s)", id), and(app("=", "(sarr s!s)", slArr(s.S)), app(">", app("+", "(soff s!s)", "(slen_ s!s)"), app("+", slOff(s.S), ln)))))
	{
		at := "at_" + es.Tag()
		tr.hyp(implies(in0, fmt.Sprintf("(forall ((k!a Int)) (! (=> (and (<= 0 k!a) (< k!a %s)) (= (%s %s %s k!a) (%s %s %s k!a))) :pattern ((%s %s %s k!a)) :pattern ((%s %s %s k!a))))",
			ln, at, A1, r.S, at, A, s.S, at, A1, r.S, at, A, s.S)))
		tr.hyp(implies(in0, fmt.Sprintf("(forall ((j!a Int)) (! (=> (and (<= 0 j!a) (< j!a %s)) (= (%s %s %s (+ %s j!a)) (%s %s %s j!a))) :pattern ((%s %s %s j!a))))",
			nn, at, A1, r.S, ln, at, A, xs.S, at, A, xs.S)))
		tr.hyp(implies(in0, fmt.Sprintf("(forall ((k!a Int)) (! (=> (and (<= %s k!a) (< k!a %s)) (= (%s %s %s k!a) (%s %s %s (- k!a %s)))) :pattern ((%s %s %s k!a))))",
			ln, nl, at, A1, r.S, at, A, xs.S, ln, at, A1, r.S)))
	}
	if es == SCur {
		// membership consequences (module nodeset): the result holds exactly the members of both operands
		m1 := fmt.Sprintf("(forall ((n!a Cursor)) (! (=> (or (mem %s %s n!a) (mem %s %s n!a)) (mem %s %s n!a)) :pattern ((mem %s %s n!a)) :pattern ((mem %s %s n!a))))", A, s.S, A, xs.S, A1, r.S, A, s.S, A, xs.S)
		tr.hyp(implies(in0, m1))
		tr.items[len(tr.items)-1].needs = "mem"
		m2 := fmt.Sprintf("(forall ((n!a Cursor)) (! (=> (mem %s %s n!a) (or (mem %s %s n!a) (mem %s %s n!a))) :pattern ((mem %s %s n!a))))", A1, r.S, A, s.S, A, xs.S, A1, r.S)
		tr.hyp(implies(in0, m2))
		tr.items[len(tr.items)-1].needs = "mem"
	}
	tr.hyp(implies(and(in0, inplace), fmt.Sprintf("(forall ((k!a Int)) (! (=> (or (< k!a (+ %s %s)) (>= k!a (+ %s %s))) (= (select (select %s %s) k!a) (select (select %s %s) k!a))) :pattern ((select (select %s %s) k!a))))",
		slOff(s.S), ln, slOff(s.S), nl, A1, slArr(s.S), A, slArr(s.S), A1, slArr(s.S))))
}

func (tr *fnTrans) copyOp(in *ssa.Call, dst, src Term) {
	if src.T == SStr {
		tr.errorf("unsupported-construct: copy from string in %s", tr.key)
		return
	}
	es := dst.T.Elem
	name := "A_" + es.Tag()
	tr.touchHeap(name, es, true)
	A := tr.curHeap(name)
	in0 := tr.inB[tr.cur]
	n := tr.define(tr.vname(in), SInt, ite(app("<", slLen(dst.S), slLen(src.S)), slLen(dst.S), slLen(src.S)))
	tr.vals[in] = T(n, SInt)
	A1 := tr.fresh(name)
	tr.decl(fmt.Sprintf("(declare-const %s %s)", A1, heapSortName(tr.maps[name])))
	tr.heap[name] = A1
	tr.bump(name)
	da, do := slArr(dst.S), slOff(dst.S)
	tr.hyp(implies(in0, fmt.Sprintf("(forall ((a!a Int)) (! (=> (not (= a!a %s)) (= (select %s a!a) (select %s a!a))) :pattern ((select %s a!a))))", da, A1, A, A1)))
	tr.hyp(implies(in0, fmt.Sprintf("(forall ((k!a Int)) (! (=> (and (<= 0 k!a) (< k!a %s)) (= (select (select %s %s) (+ %s k!a)) (select (select %s %s) (+ %s k!a)))) :pattern ((select (select %s %s) (+ %s k!a)))))",
		n, A1, da, do, A, slArr(src.S), slOff(src.S), A1, da, do)))
	tr.hyp(implies(in0, fmt.Sprintf("(forall ((k!a Int)) (! (=> (or (< k!a %s) (>= k!a (+ %s %s))) (= (select (select %s %s) k!a) (select (select %s %s) k!a))) :pattern ((select (select %s %s) k!a))))",
		do, do, n, A1, da, A, da, A1, da)))
	tr.atStep(name, A, A1, and(app("=", "(sarr s!s)", da), app(">=", "(+ (soff s!s) k!s)", do), app("<", "(+ (soff s!s) k!s)", app("+", do, n))), app("=", "(sarr s!s)", da))
	at := "at_" + es.Tag()
	tr.hyp(implies(in0, fmt.Sprintf("(forall ((k!a Int)) (! (=> (and (<= 0 k!a) (< k!a %s)) (= (%s %s %s k!a) (%s %s %s k!a))) :pattern ((%s %s %s k!a)) :pattern ((%s %s %s k!a))))",
		n, at, A1, dst.S, at, A, src.S, at, A1, dst.S, at, A, src.S)))
}

var _ = token.NoPos
var _ = strings.TrimSpace
