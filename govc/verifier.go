package main

import (
	"fmt"
	"go/ast"
	"go/token"
	"go/types"
	"os"
	"path/filepath"
	"sort"
	"strings"

	"golang.org/x/tools/go/packages"
	"golang.org/x/tools/go/ssa"
	"golang.org/x/tools/go/ssa/ssautil"
)

type verifier struct {
	repo      string
	specDir   string
	prog      *ssa.Program
	fset      *token.FileSet
	pkgs      []*packages.Package
	spkgs     map[string]*ssa.Package // by package path
	prelude   *Prelude
	contracts map[string]*Contract // key: short name (pkg.Func / pkg.Type.Method)
	clist     []*Contract
	funcs     map[string]*ssa.Function // key -> function (repo packages only)

	sortCache   map[string]*Sort
	structSorts map[string]*Sort
	opaqueSorts map[string]*Sort
	structDecls []string // SMT declarations for struct datatypes, in dependency order
	opaqueDecls []string
	mapSorts    map[string]*Sort

	opaqueStructs map[string]bool
	boxTags       map[string][]string
	knownClause   map[string]bool
	tabs          *tables
	typedSorts    map[string]bool
	genFn         map[string]bool
	curPkg        string // package path of the function being verified (affects Cursor mapping)
}

var repoPkgs = []string{".", "./exec", "./store", "./parser", "./grammar", "./node"}

func newVerifier(repo, specDir string) (*verifier, error) {
	v := &verifier{repo: repo, specDir: specDir,
		contracts: map[string]*Contract{}, funcs: map[string]*ssa.Function{},
		sortCache: map[string]*Sort{}, structSorts: map[string]*Sort{}, opaqueSorts: map[string]*Sort{},
		mapSorts: map[string]*Sort{}, spkgs: map[string]*ssa.Package{}, boxTags: map[string][]string{},
		opaqueStructs: map[string]bool{
			"github.com/ChrisTrenkamp/xsel/grammar/parser/bsr.Set":    true,
			"github.com/ChrisTrenkamp/xsel/grammar/token.Token":       true,
			"github.com/ChrisTrenkamp/xsel/grammar/lexer.Lexer":       true,
			"github.com/ChrisTrenkamp/xsel/grammar/parser/slot.Label": true,
			"strings.Builder":                true,
			"encoding/xml.Decoder":           true,
			"encoding/json.Decoder":          true,
			"reflect.Value":                  true,
			"golang.org/x/text/language.Tag": true,
		},
	}
	// opaque struct sorts exist in every query (prelude modules may mention them)
	for ts := range v.opaqueStructs {
		i := strings.LastIndex(ts, "/")
		v.opaque("O_" + sanitize(strings.Replace(ts[i+1:], ".", "_", 1)))
	}
	// opaque interface sorts that specification modules mention (declared only in the queries that use them)
	for _, n := range []string{"I_reflect_Type", "I_any", "I_json_Token"} {
		v.opaque(n)
	}
	sort.Strings(v.opaqueDecls)
	v.typedSorts = map[string]bool{"S_store_InMemory": true}
	v.knownClause = map[string]bool{}
	var kf KnownFile
	if loadJSON(filepath.Join(filepath.Dir(specDir), "known-findings.json"), &kf) == nil {
		for _, k := range kf.Findings {
			v.knownClause[k.Obligation] = true
		}
	}
	var err error
	v.prelude, err = loadPrelude(specDir)
	if err != nil {
		return nil, err
	}
	cfg := &packages.Config{Mode: packages.LoadAllSyntax, Dir: repo, BuildFlags: []string{"-tags=verif"},
		Env: append(os.Environ(), "GOFLAGS=-mod=mod", "GOPROXY=off", "GOSUMDB=off", "GOTOOLCHAIN=local")}
	pkgs, err := packages.Load(cfg, repoPkgs...)
	if err != nil {
		return nil, err
	}
	for _, p := range pkgs {
		for _, e := range p.Errors {
			return nil, fmt.Errorf("load %s: %v", p.PkgPath, e)
		}
	}
	v.pkgs = pkgs
	prog, spkgs := ssautil.AllPackages(pkgs, ssa.GlobalDebug)
	prog.Build()
	v.prog = prog
	for i, sp := range spkgs {
		if sp != nil {
			v.spkgs[pkgs[i].PkgPath] = sp
		}
	}
	if len(pkgs) > 0 {
		v.fset = pkgs[0].Fset
	}
	// index functions of the repo packages
	for _, sp := range v.spkgs {
		for _, m := range sp.Members {
			switch m := m.(type) {
			case *ssa.Function:
				v.indexFn(m)
			case *ssa.Type:
				for _, t := range []types.Type{m.Type(), types.NewPointer(m.Type())} {
					ms := prog.MethodSets.MethodSet(t)
					for i := 0; i < ms.Len(); i++ {
						if fn := prog.MethodValue(ms.At(i)); fn != nil && fn.Synthetic == "" {
							v.indexFn(fn)
						}
					}
				}
			}
		}
	}
	// tables of the generated grammar and the handler registry -> prelude module "gentables"
	v.tabs = v.loadTables()
	v.genFn = map[string]bool{}
	for _, f := range v.tabs.handlers {
		v.genFn["fn_"+sanitize(fnKey(f))] = true
	}
	// struct sorts the prelude refers to exist in every query
	for _, tn := range [][2]string{{"/grammar/parser/bsr", "BSR"}, {"/exec", "ContextSettings"}, {"/exec", "exprContext"}, {"/grammar", "Grammar"}, {"/exec", "XmlName"}} {
		if sp := v.spkgs[xselPath+tn[0]]; sp != nil {
			if tm := sp.Type(tn[1]); tm != nil {
				v.sortOf(tm.Type())
			}
		}
	}
	if err := v.prelude.addModule("gentables", v.genTables()); err != nil {
		return nil, err
	}
	if err := v.prelude.addModule("genforest", v.genForest()); err != nil {
		return nil, err
	}
	// contract files: comment-only zz_contracts_verif.go in each repo package
	for _, p := range pkgs {
		for i, f := range p.Syntax {
			name := p.CompiledGoFiles[i]
			if !strings.HasSuffix(name, "_verif.go") {
				continue
			}
			var sb strings.Builder
			for _, cg := range f.Comments {
				for _, c := range cg.List {
					// keep line structure
					sb.WriteString(c.Text)
					sb.WriteString("\n")
				}
			}
			cs, err := parseContractFile(name, p.Types.Name(), sb.String())
			if err != nil {
				return nil, err
			}
			for _, c := range cs {
				key := c.Name
				if !c.Extern {
					key = c.Pkg + "." + c.Name
				}
				if _, dup := v.contracts[key]; dup {
					return nil, fmt.Errorf("%s:%d: duplicate contract for %s", c.File, c.Line, key)
				}
				v.contracts[key] = c
				v.clist = append(v.clist, c)
			}
		}
	}
	return v, nil
}

func (v *verifier) indexFn(fn *ssa.Function) {
	v.funcs[fnKey(fn)] = fn
	for _, an := range fn.AnonFuncs {
		v.indexFn(an)
	}
}

// fnKey: pkg.Func, pkg.Type.Method, pkg.Func$1
func fnKey(fn *ssa.Function) string {
	pkg := ""
	if fn.Pkg != nil {
		pkg = fn.Pkg.Pkg.Name()
	} else if fn.Parent() != nil {
		return fnKey(fn.Parent()) + "$" + strings.TrimPrefix(fn.Name(), fn.Parent().Name()+"$")
	} else if o := fn.Object(); o != nil && o.Pkg() != nil {
		pkg = o.Pkg().Name()
	}
	if fn.Parent() != nil {
		return fnKey(fn.Parent()) + "$" + strings.TrimPrefix(fn.Name(), fn.Parent().Name()+"$")
	}
	if recv := fn.Signature.Recv(); recv != nil {
		t := recv.Type()
		if p, ok := t.(*types.Pointer); ok {
			t = p.Elem()
		}
		if n, ok := t.(*types.Named); ok {
			return pkg + "." + n.Obj().Name() + "." + fn.Name()
		}
	}
	return pkg + "." + fn.Name()
}

// ---------- Go types -> sorts ----------

const xselPath = "github.com/ChrisTrenkamp/xsel"

func (v *verifier) sliceOf(e *Sort) *Sort {
	k := "[]" + e.Name
	if e.Elem != nil {
		k += "->" + e.Elem.Name // pointers and slices all share an SMT sort; the cache must not merge different targets
		if e.Elem.Elem != nil {
			k += "->" + e.Elem.Elem.Name
		}
	}
	if s, ok := v.sortCache[k]; ok {
		return s
	}
	s := &Sort{Name: "Slice", Elem: e, Zero: "Slice_nil"}
	v.sortCache[k] = s
	return s
}

func (v *verifier) ptrTo(e *Sort) *Sort {
	k := "*" + e.Name
	if e.Name == "ARRAY" {
		k = "*[N]" + e.Elem.Name
	}
	if s, ok := v.sortCache[k]; ok {
		return s
	}
	s := &Sort{Name: "Int", Elem: e, Zero: "0"}
	v.sortCache[k] = s
	return s
}

func (v *verifier) opaque(name string) *Sort {
	if s, ok := v.opaqueSorts[name]; ok {
		return s
	}
	s := &Sort{Name: name, Opaque: true, Zero: name + "_nil"}
	v.opaqueSorts[name] = s
	v.opaqueDecls = append(v.opaqueDecls, fmt.Sprintf("(declare-sort %s 0)\n(declare-const %s_nil %s)", name, name, name))
	return s
}

func sanitize(s string) string {
	var b strings.Builder
	for _, c := range s {
		if (c >= 'a' && c <= 'z') || (c >= 'A' && c <= 'Z') || (c >= '0' && c <= '9') || c == '_' {
			b.WriteRune(c)
		} else {
			b.WriteByte('_')
		}
	}
	return b.String()
}

func (v *verifier) sortOf(t types.Type) (*Sort, error) {
	ts := types.TypeString(t, nil)
	key := v.curPkgKey() + "|" + ts
	if s, ok := v.sortCache[key]; ok {
		return s, nil
	}
	s, err := v.sortOf1(t, ts)
	if err != nil {
		return nil, err
	}
	v.sortCache[key] = s
	return s, nil
}

func (v *verifier) curPkgKey() string {
	if v.curPkg == xselPath+"/store" {
		return "store"
	}
	return ""
}

func (v *verifier) sortOf1(t types.Type, ts string) (*Sort, error) {
	switch ts {
	case xselPath + "/exec.Result":
		return SVal, nil
	case xselPath + "/store.Cursor":
		if v.curPkgKey() == "store" {
			im := v.spkgs[xselPath+"/store"].Type("InMemory").Type()
			s, err := v.sortOf(im)
			if err != nil {
				return nil, err
			}
			return v.ptrTo(s), nil
		}
		return SCur, nil
	case "error":
		return SErr, nil
	case xselPath + "/exec.Context":
		ec := v.spkgs[xselPath+"/exec"].Type("exprContext").Type()
		s, err := v.sortOf(ec)
		if err != nil {
			return nil, err
		}
		return v.ptrTo(s), nil
	}
	if strings.HasPrefix(ts, xselPath+"/node.") {
		return SNode, nil
	}
	switch t := t.(type) {
	case *types.Basic:
		switch {
		case t.Kind() == types.Bool || t.Kind() == types.UntypedBool:
			return SBool, nil
		case t.Info()&types.IsInteger != 0:
			return SInt, nil
		case t.Kind() == types.Float64 || t.Kind() == types.UntypedFloat:
			return SF64, nil
		case t.Kind() == types.Float32:
			return v.opaque("F32"), nil
		case t.Kind() == types.String || t.Kind() == types.UntypedString:
			return SStr, nil
		case t.Kind() == types.UntypedNil:
			return nil, nil
		case t.Kind() == types.UnsafePointer:
			return SInt, nil
		}
	case *types.Alias:
		return v.sortOf(types.Unalias(t))
	case *types.Named:
		if st, ok := t.Underlying().(*types.Struct); ok {
			return v.structSort(t, st, ts)
		}
		if _, ok := t.Underlying().(*types.Interface); ok {
			return v.opaque("I_" + sanitize(t.Obj().Pkg().Name()+"_"+t.Obj().Name())), nil
		}
		return v.sortOf(t.Underlying())
	case *types.Pointer:
		e, err := v.sortOf(t.Elem())
		if err != nil {
			return nil, err
		}
		return v.ptrTo(e), nil
	case *types.Slice:
		e, err := v.sortOf(t.Elem())
		if err != nil {
			return nil, err
		}
		return v.sliceOf(e), nil
	case *types.Array:
		e, err := v.sortOf(t.Elem())
		if err != nil {
			return nil, err
		}
		return &Sort{Name: "ARRAY", Elem: e}, nil
	case *types.Map:
		k, err := v.sortOf(t.Key())
		if err != nil {
			return nil, err
		}
		e, err := v.sortOf(t.Elem())
		if err != nil {
			return nil, err
		}
		name := "M_" + sanitize(k.Tag()) + "_" + sanitize(e.Tag())
		if s, ok := v.mapSorts[name]; ok {
			return s, nil
		}
		s := &Sort{Name: name, Opaque: true, Elem: e, Zero: name + "_nil", Fields: []Field{{Name: "key", Sort: k}}}
		v.mapSorts[name] = s
		v.opaqueDecls = append(v.opaqueDecls, fmt.Sprintf("(declare-sort %s 0)\n(declare-const %s_nil %s)\n(declare-fun mget_%s (%s %s) %s)\n(declare-fun mhas_%s (%s %s) Bool)\n(assert (forall ((k %s)) (not (mhas_%s %s_nil k))))\n(assert (forall ((m %s) (k %s)) (! (=> (not (mhas_%s m k)) (= (mget_%s m k) %s)) :pattern ((mget_%s m k)))))",
			name, name, name, name, name, k.Name, e.Name, name, name, k.Name, k.Name, name, name,
			name, k.Name, name, name, zeroOf(e), name))
		return s, nil
	case *types.Signature:
		return SFn, nil
	case *types.Interface:
		return v.opaque("I_any"), nil
	case *types.Struct:
		return v.structSort(nil, t, ts)
	case *types.Tuple:
		return nil, nil
	case *types.Chan:
		return v.opaque("Chan"), nil
	}
	return nil, fmt.Errorf("unsupported type %s", ts)
}

func zeroOf(s *Sort) string {
	if s.Zero != "" {
		return s.Zero
	}
	return s.Name + "_nil"
}

func (v *verifier) structSort(n *types.Named, st *types.Struct, ts string) (*Sort, error) {
	if v.opaqueStructs[ts] {
		return v.opaque("O_" + sanitize(n.Obj().Pkg().Name()+"_"+n.Obj().Name())), nil
	}
	name := "S_anon_" + sanitize(ts)
	if n != nil {
		name = "S_" + sanitize(n.Obj().Pkg().Name()+"_"+n.Obj().Name())
		// a struct of package store is always laid out in that package's view (Cursor = *InMemory)
		if n.Obj().Pkg().Path() == xselPath+"/store" && v.curPkg != xselPath+"/store" {
			old := v.curPkg
			v.curPkg = xselPath + "/store"
			defer func() { v.curPkg = old }()
		}
	}
	if s, ok := v.structSorts[name]; ok {
		return s, nil
	}
	s := &Sort{Name: name}
	v.structSorts[name] = s // pre-register (pointer recursion)
	var fds []string
	var zeros []string
	for i := 0; i < st.NumFields(); i++ {
		f := st.Field(i)
		fs, err := v.sortOf(f.Type())
		if err != nil || fs == nil {
			fs = v.opaque("U_unsupported")
		}
		s.Fields = append(s.Fields, Field{Name: f.Name(), Sort: fs})
		fds = append(fds, fmt.Sprintf("(%s %s)", fieldSel(s, f.Name()), fs.Name))
		zeros = append(zeros, zeroOf(fs))
	}
	if len(fds) == 0 {
		v.opaqueDecls = append(v.opaqueDecls, fmt.Sprintf("(declare-datatypes ((%s 0)) (((mk_%s))))", name, name))
		s.Zero = "mk_" + name
	} else {
		v.opaqueDecls = append(v.opaqueDecls, fmt.Sprintf("(declare-datatypes ((%s 0)) (((mk_%s %s))))", name, name, strings.Join(fds, " ")))
		s.Zero = "(mk_" + name + " " + strings.Join(zeros, " ") + ")"
	}
	return s, nil
}

// ---------- misc ----------

func (v *verifier) contractFor(fn *ssa.Function) *Contract {
	return v.contracts[fnKey(fn)]
}

// loop headers of fn in source order, for the loop ordinals used by contracts
func loopCountAST(fn *ssa.Function) int {
	n := 0
	if fn.Syntax() == nil {
		return 0
	}
	ast.Inspect(fn.Syntax(), func(x ast.Node) bool {
		switch x.(type) {
		case *ast.ForStmt, *ast.RangeStmt:
			n++
		case *ast.FuncLit:
			if x != fn.Syntax() {
				return false
			}
		}
		return true
	})
	return n
}

func (v *verifier) sortedContractKeys() []string {
	var ks []string
	for k := range v.contracts {
		ks = append(ks, k)
	}
	sort.Strings(ks)
	return ks
}

func relPath(p string) string {
	if r, err := filepath.Rel("/repo", p); err == nil && !strings.HasPrefix(r, "..") {
		return r
	}
	return p
}

// nonNilErrGlobal: the global is stored to only in the package initialiser, and only with the result
// of fmt.Errorf / errors.New (which never return nil).
func (v *verifier) nonNilErrGlobal(g *ssa.Global) bool {
	key := "nonnil|" + g.Pkg.Pkg.Path() + "." + g.Name()
	if s, ok := v.sortCache[key]; ok {
		return s != nil
	}
	ok := false
	bad := false
	var scan func(fn *ssa.Function)
	scan = func(fn *ssa.Function) {
		for _, b := range fn.Blocks {
			for _, in := range b.Instrs {
				st, isStore := in.(*ssa.Store)
				if !isStore || st.Addr != ssa.Value(g) {
					continue
				}
				if fn.Name() != "init" {
					bad = true
					continue
				}
				if call, isCall := st.Val.(*ssa.Call); isCall {
					if callee := call.Common().StaticCallee(); callee != nil && (callee.String() == "fmt.Errorf" || callee.String() == "errors.New") {
						ok = true
						continue
					}
				}
				bad = true
			}
		}
		for _, an := range fn.AnonFuncs {
			scan(an)
		}
	}
	for _, m := range g.Pkg.Members {
		if fn, isFn := m.(*ssa.Function); isFn {
			scan(fn)
		}
	}
	for _, fn := range v.funcs {
		if fn.Pkg == g.Pkg {
			scan(fn)
		}
	}
	if ok && !bad {
		v.sortCache[key] = SErr
		return true
	}
	v.sortCache[key] = nil
	return false
}

// emptySliceGlobal: a package-level slice stored to only in the initialiser, with make(T, 0).
func (v *verifier) emptySliceGlobal(g *ssa.Global) bool {
	key := "emptyslice|" + g.Pkg.Pkg.Path() + "." + g.Name()
	if s, ok := v.sortCache[key]; ok {
		return s != nil
	}
	ok, bad := false, false
	var scan func(fn *ssa.Function)
	scan = func(fn *ssa.Function) {
		for _, b := range fn.Blocks {
			for _, in := range b.Instrs {
				st, isStore := in.(*ssa.Store)
				if !isStore || st.Addr != ssa.Value(g) {
					continue
				}
				if fn.Name() != "init" {
					bad = true
					continue
				}
				good := false
				switch mv := st.Val.(type) {
				case *ssa.MakeSlice:
					if c, isC := mv.Len.(*ssa.Const); isC && c.Int64() == 0 {
						good = true
					}
				case *ssa.Slice:
					// make([]T, 0) with constant size compiles to new [0]T + slice
					if al, isA := mv.X.(*ssa.Alloc); isA {
						if pt, isP := al.Type().Underlying().(*types.Pointer); isP {
							if at, isArr := pt.Elem().Underlying().(*types.Array); isArr && at.Len() == 0 {
								good = true
							}
						}
					}
				}
				if good {
					ok = true
				} else {
					bad = true
				}
			}
		}
		for _, an := range fn.AnonFuncs {
			scan(an)
		}
	}
	for _, m := range g.Pkg.Members {
		if fn, isFn := m.(*ssa.Function); isFn {
			scan(fn)
		}
	}
	for _, fn := range v.funcs {
		if fn.Pkg == g.Pkg {
			scan(fn)
		}
	}
	if ok && !bad {
		v.sortCache[key] = SSl
		return true
	}
	v.sortCache[key] = nil
	return false
}
