package main

import (
	"bytes"
	"context"
	"crypto/sha256"
	"encoding/hex"
	"encoding/json"
	"fmt"
	"os"
	"os/exec"
	"path/filepath"
	"strings"
	"sync"
	"time"
)

type SolveResult struct {
	Status  string  `json:"status"` // unsat | sat | unknown | timeout | error
	Solver  string  `json:"solver"`
	TimeS   float64 `json:"time_s"`
	Model   string  `json:"model,omitempty"`
	Cached  bool    `json:"cached,omitempty"`
	Detail  string  `json:"detail,omitempty"`
	Confirm string  `json:"confirmed_by,omitempty"`
}

type solverSpec struct {
	name string
	argv func(file string, timeoutS int) []string
}

var solvers = []solverSpec{
	{"z3-new", func(f string, t int) []string { return []string{"z3-new", fmt.Sprintf("-T:%d", t), f} }},
	{"z3", func(f string, t int) []string { return []string{"z3", fmt.Sprintf("-T:%d", t), f} }},
	{"cvc5", func(f string, t int) []string {
		return []string{"cvc5", fmt.Sprintf("--tlimit=%d", t*1000), "--lang=smt2", f}
	}},
}

func (tr *fnTrans) queryText(o *Obligation, wantModel bool) string {
	var sb strings.Builder
	v := tr.v
	if wantModel {
		sb.WriteString("(set-option :produce-models true)\n")
	}
	sb.WriteString("(set-logic ALL)\n")
	var names []string
	names = append(names, "core")
	for u := range tr.uses {
		names = append(names, u)
	}
	// deterministic order
	sortStrings(names[1:])
	mods, err := v.prelude.closure(names)
	if err != nil {
		sb.WriteString("; prelude error: " + err.Error() + "\n")
	}
	for _, m := range mods {
		if m == "core" {
			sb.WriteString(v.prelude.Mods[m].Text)
			sb.WriteString("\n")
			for _, d := range v.opaqueDecls {
				sb.WriteString(d + "\n")
			}
			for _, d := range v.structDecls {
				sb.WriteString(d + "\n")
			}
			for _, n := range tr.mapOrder {
				sb.WriteString(fmt.Sprintf("(declare-const %s %s)\n", tr.heapEntry(n), heapSortName(tr.maps[n])))
			}
			continue
		}
		sb.WriteString(v.prelude.Mods[m].Text)
		sb.WriteString("\n")
	}
	if len(tr.strOrder) > 0 {
		all := []string{"str_empty"}
		for _, s := range tr.strOrder {
			n := tr.strLits[s]
			sb.WriteString(fmt.Sprintf("(declare-const %s Str)\n(assert (= (slen %s) %d))\n", n, n, len(s)))
			if len(s) <= 40 {
				for i := 0; i < len(s); i++ {
					sb.WriteString(fmt.Sprintf("(assert (= (sbyte %s %d) %d))\n", n, i, s[i]))
				}
			}
			all = append(all, n)
		}
		sb.WriteString("(assert (distinct " + strings.Join(all, " ") + "))\n")
	}
	for _, it := range tr.items[:o.Pos] {
		sb.WriteString(it.text)
		sb.WriteString("\n")
	}
	sb.WriteString("(assert (not " + o.Goal + "))\n(check-sat)\n")
	if wantModel {
		sb.WriteString("(get-model)\n")
	}
	return sb.String()
}

func sortStrings(s []string) {
	for i := 1; i < len(s); i++ {
		for j := i; j > 0 && s[j] < s[j-1]; j-- {
			s[j], s[j-1] = s[j-1], s[j]
		}
	}
}

type solverPool struct {
	sem      chan struct{}
	cacheDir string
	workDir  string
	mu       sync.Mutex
}

func newSolverPool(n int, cacheDir string) *solverPool {
	wd, _ := os.MkdirTemp("", "govc-q-")
	if cacheDir != "" {
		os.MkdirAll(cacheDir, 0o755)
	}
	return &solverPool{sem: make(chan struct{}, n), cacheDir: cacheDir, workDir: wd}
}

func (p *solverPool) close() { os.RemoveAll(p.workDir) }

func runSolver(ctx context.Context, sp solverSpec, file string, timeoutS int) SolveResult {
	argv := sp.argv(file, timeoutS)
	cctx, cancel := context.WithTimeout(ctx, time.Duration(timeoutS+3)*time.Second)
	defer cancel()
	cmd := exec.CommandContext(cctx, argv[0], argv[1:]...)
	var out bytes.Buffer
	cmd.Stdout = &out
	cmd.Stderr = &out
	t0 := time.Now()
	_ = cmd.Run()
	el := time.Since(t0).Seconds()
	text := out.String()
	first := strings.TrimSpace(strings.SplitN(text, "\n", 2)[0])
	res := SolveResult{Solver: sp.name, TimeS: el}
	switch first {
	case "unsat":
		res.Status = "unsat"
	case "sat":
		res.Status = "sat"
		if i := strings.Index(text, "\n"); i >= 0 {
			res.Model = text[i+1:]
		}
	case "unknown":
		res.Status = "unknown"
	case "timeout":
		res.Status = "timeout"
	default:
		if ctx.Err() != nil {
			res.Status = "cancelled"
		} else if cctx.Err() != nil || strings.Contains(text, "timeout") || strings.Contains(text, "interrupted") {
			res.Status = "timeout"
		} else {
			res.Status = "error"
			if len(text) > 600 {
				text = text[:600]
			}
			res.Detail = text
		}
	}
	return res
}

// solve races the solvers on one query.
func (p *solverPool) solve(query string, timeoutS int, which []string) SolveResult {
	sum := sha256.Sum256([]byte(query))
	key := hex.EncodeToString(sum[:])
	if p.cacheDir != "" {
		if b, err := os.ReadFile(filepath.Join(p.cacheDir, key+".json")); err == nil {
			var r SolveResult
			if json.Unmarshal(b, &r) == nil && (r.Status == "unsat" || r.Status == "sat") {
				r.Cached = true
				return r
			}
		}
	}
	file := filepath.Join(p.workDir, key[:24]+".smt2")
	os.WriteFile(file, []byte(query), 0o644)
	defer os.Remove(file)
	ctx, cancel := context.WithCancel(context.Background())
	defer cancel()
	ch := make(chan SolveResult, len(solvers))
	n := 0
	for _, sp := range solvers {
		if len(which) > 0 {
			ok := false
			for _, w := range which {
				if w == sp.name {
					ok = true
				}
			}
			if !ok {
				continue
			}
		}
		n++
		sp := sp
		go func() {
			p.sem <- struct{}{}
			defer func() { <-p.sem }()
			if ctx.Err() != nil {
				ch <- SolveResult{Solver: sp.name, Status: "cancelled"}
				return
			}
			ch <- runSolver(ctx, sp, file, timeoutS)
		}()
	}
	var best SolveResult
	var details []string
	for i := 0; i < n; i++ {
		r := <-ch
		if r.Status == "unsat" || r.Status == "sat" {
			best = r
			cancel()
			if p.cacheDir != "" {
				b, _ := json.Marshal(r)
				os.WriteFile(filepath.Join(p.cacheDir, key+".json"), b, 0o644)
			}
			// drain
			go func(rem int) {
				for j := 0; j < rem; j++ {
					<-ch
				}
			}(n - i - 1)
			return best
		}
		details = append(details, fmt.Sprintf("%s:%s(%.1fs)%s", r.Solver, r.Status, r.TimeS, firstLine(r.Detail)))
		if best.Status == "" || best.Status == "cancelled" || (best.Status == "error" && r.Status != "error") {
			best = r
		}
	}
	best.Detail = strings.Join(details, "; ")
	if best.Status == "error" {
		// all solvers errored
		return best
	}
	if best.Status != "timeout" {
		best.Status = "unknown"
	}
	return best
}

func firstLine(s string) string {
	s = strings.TrimSpace(s)
	if s == "" {
		return ""
	}
	if i := strings.Index(s, "\n"); i >= 0 {
		s = s[:i]
	}
	return " " + s
}
