package main

import (
	"bytes"
	"context"
	"crypto/sha256"
	"encoding/hex"
	"encoding/json"
	"fmt"
	"os"
	"os/exec"
	"path/filepath"
	"strings"
	"sync"
	"time"
)

type SolveResult struct {
	Status  string  `json:"status"` // unsat | sat | unknown | timeout | error
	Solver  string  `json:"solver"`
	TimeS   float64 `json:"time_s"`
	Model   string  `json:"model,omitempty"`
	Cached  bool    `json:"cached,omitempty"`
	Detail  string  `json:"detail,omitempty"`
	Confirm string  `json:"confirmed_by,omitempty"`
}

type solverSpec struct {
	name string
	argv func(file string, timeoutS int) []string
}

var solvers = []solverSpec{
	{"z3-new", func(f string, t int) []string { return []string{"z3-new", fmt.Sprintf("-T:%d", t), f} }},
	{"z3", func(f string, t int) []string { return []string{"z3", fmt.Sprintf("-T:%d", t), f} }},
	{"cvc5", func(f string, t int) []string {
		return []string{"cvc5", fmt.Sprintf("--tlimit=%d", t*1000), "--lang=smt2", f}
	}},
}

func (tr *fnTrans) queryText(o *Obligation, wantModel bool) string {
	return tr.queryText2(o, wantModel, false)
}

// queryText2 with relaxed=true drops every quantified assertion: a weaker hypothesis set whose
// models are only candidate counterexamples (they are validated by replay on the real code).
func (tr *fnTrans) queryText2(o *Obligation, wantModel bool, relaxed bool) string {
	var sb strings.Builder
	v := tr.v
	if wantModel {
		sb.WriteString("(set-option :produce-models true)\n")
	}
	sb.WriteString("(set-logic ALL)\n")
	var names []string
	names = append(names, "core")
	for u := range tr.uses {
		names = append(names, u)
	}
	// deterministic order
	sortStrings(names[1:])
	mods, err := v.prelude.closure(names)
	if err != nil {
		sb.WriteString("; prelude error: " + err.Error() + "\n")
	}
	declared := map[string]bool{}
	for _, m := range mods {
		for d := range v.prelude.Mods[m].Declares {
			declared[d] = true
		}
	}
	// module texts, with "..." string literals replaced by declared constants
	var modText strings.Builder
	for _, m := range mods {
		if m == "core" {
			continue
		}
		mt := replaceLits(v.prelude.Mods[m].Text, tr)
		if relaxed {
			mt = stripQuantified(mt)
		}
		modText.WriteString(mt)
		modText.WriteString("\n")
	}
	coreText := v.prelude.Mods["core"].Text
	if relaxed {
		coreText = stripQuantified(coreText)
	}
	sb.WriteString(coreText)
	sb.WriteString("\n")
	sb.WriteString("\x00OPAQUE\x00")
	for _, n := range tr.mapOrder {
		hi := tr.maps[n]
		sb.WriteString(fmt.Sprintf("(declare-const %s %s)\n", tr.heapEntry(n), heapSortName(hi)))
		if hi.isArr {
			// at_<sort>(heap, slice, k): the k-th element of a slice; every read of a slice element is an `at` term
			at := "at_" + hi.elem.Tag()
			sb.WriteString(fmt.Sprintf("(declare-fun %s (%s Slice Int) %s)\n", at, heapSortName(hi), hi.elem.Name))
			if !relaxed {
				sb.WriteString(fmt.Sprintf("(assert (forall ((h %s) (s Slice) (k Int)) (! (= (%s h s k) (select (select h (sarr s)) (+ (soff s) k))) :pattern ((%s h s k)))))\n", heapSortName(hi), at, at))
			}
		}
	}
	if len(tr.strOrder) > 0 {
		all := []string{"str_empty"}
		for _, s := range tr.strOrder {
			n := tr.strLits[s]
			sb.WriteString(fmt.Sprintf("(declare-const %s Str)\n(assert (= (slen %s) %d))\n", n, n, len(s)))
			if len(s) <= 40 {
				for i := 0; i < len(s); i++ {
					sb.WriteString(fmt.Sprintf("(assert (= (sbyte %s %d) %d))\n", n, i, s[i]))
				}
			}
			all = append(all, n)
		}
		sb.WriteString("(assert (distinct " + strings.Join(all, " ") + "))\n")
	}
	sb.WriteString(modText.String())
	for _, it := range tr.items[:o.Pos] {
		if it.needs != "" && !declared[it.needs] {
			continue
		}
		if o.onlyBlk != nil && it.isHyp && it.blk >= 0 && !o.onlyBlk[it.blk] {
			continue
		}
		if relaxed && it.isHyp && (strings.Contains(it.text, "(forall ") || strings.Contains(it.text, "(exists ")) {
			continue
		}
		sb.WriteString(it.text)
		sb.WriteString("\n")
	}
	sb.WriteString("(assert (not " + o.Goal + "))\n(check-sat)\n")
	if wantModel {
		sb.WriteString("(get-model)\n")
	}
	// Global declarations (struct/opaque/map sorts, boxing functions) are created on demand while ANY function is
	// translated.  A query gets only those it needs - the ones whose declared symbols occur in its text, closed under
	// the symbols the included declarations mention themselves - so that its text does not depend on which other
	// functions happened to be translated in the same run.
	body := sb.String()
	declNames := func(d string) []string {
		var names []string
		for _, kw := range []string{"(declare-sort ", "(declare-datatypes ((", "(declare-fun ", "(declare-const ", "(define-fun "} {
			rest := d
			for {
				k := strings.Index(rest, kw)
				if k < 0 {
					break
				}
				rest = rest[k+len(kw):]
				e := strings.IndexAny(rest, " )\n")
				if e > 0 {
					names = append(names, rest[:e])
				}
			}
		}
		return names
	}
	included := make([]bool, len(v.opaqueDecls))
	text := body
	for changed := true; changed; {
		changed = false
		for k, d := range v.opaqueDecls {
			if included[k] {
				continue
			}
			for _, n := range declNames(d) {
				if strings.Contains(text, n) {
					included[k] = true
					text += d
					changed = true
					break
				}
			}
		}
	}
	var od strings.Builder
	for k, d := range v.opaqueDecls {
		if !included[k] {
			continue
		}
		if relaxed {
			d = stripQuantified(d)
		}
		od.WriteString(d + "\n")
	}
	return strings.Replace(body, "\x00OPAQUE\x00", od.String(), 1)
}

func sortStrings(s []string) {
	for i := 1; i < len(s); i++ {
		for j := i; j > 0 && s[j] < s[j-1]; j-- {
			s[j], s[j-1] = s[j-1], s[j]
		}
	}
}

type solverPool struct {
	sem      chan struct{}
	cacheDir string
	workDir  string
	mu       sync.Mutex
	seq      int
}

func newSolverPool(n int, cacheDir string) *solverPool {
	wd, _ := os.MkdirTemp("", "govc-q-")
	if cacheDir != "" {
		os.MkdirAll(cacheDir, 0o755)
	}
	return &solverPool{sem: make(chan struct{}, n), cacheDir: cacheDir, workDir: wd}
}

func (p *solverPool) close() { os.RemoveAll(p.workDir) }

func runSolver(ctx context.Context, sp solverSpec, file string, timeoutS int) SolveResult {
	argv := sp.argv(file, timeoutS)
	cctx, cancel := context.WithTimeout(ctx, time.Duration(timeoutS+3)*time.Second)
	defer cancel()
	cmd := exec.CommandContext(cctx, argv[0], argv[1:]...)
	var out bytes.Buffer
	cmd.Stdout = &out
	cmd.Stderr = &out
	t0 := time.Now()
	_ = cmd.Run()
	el := time.Since(t0).Seconds()
	text := out.String()
	first := ""
	for _, ln := range strings.Split(text, "\n") {
		ln = strings.TrimSpace(ln)
		if ln == "" || strings.HasPrefix(ln, "WARNING") || strings.HasPrefix(ln, "(warning") {
			continue
		}
		first = ln
		break
	}
	res := SolveResult{Solver: sp.name, TimeS: el}
	switch first {
	case "unsat":
		res.Status = "unsat"
	case "sat":
		res.Status = "sat"
		if i := strings.Index(text, "sat\n"); i >= 0 {
			res.Model = text[i+4:]
		}
	case "unknown":
		res.Status = "unknown"
	case "timeout":
		res.Status = "timeout"
	default:
		if ctx.Err() != nil {
			res.Status = "cancelled"
		} else if cctx.Err() != nil || strings.Contains(text, "timeout") || strings.Contains(text, "interrupted") {
			res.Status = "timeout"
		} else {
			res.Status = "error"
			if len(text) > 600 {
				text = text[:600]
			}
			res.Detail = text
		}
	}
	return res
}

// solve races the solvers on one query.
func (p *solverPool) solve(query string, timeoutS int, which []string) SolveResult {
	sum := sha256.Sum256([]byte(query))
	key := hex.EncodeToString(sum[:])
	if p.cacheDir != "" {
		if b, err := os.ReadFile(filepath.Join(p.cacheDir, key+".json")); err == nil {
			var r SolveResult
			if json.Unmarshal(b, &r) == nil && (r.Status == "unsat" || r.Status == "sat") {
				r.Cached = true
				return r
			}
		}
	}
	p.mu.Lock()
	p.seq++
	seq := p.seq
	p.mu.Unlock()
	file := filepath.Join(p.workDir, fmt.Sprintf("%s_%d.smt2", key[:16], seq))
	os.WriteFile(file, []byte(query), 0o644)
	defer os.Remove(file)
	ctx, cancel := context.WithCancel(context.Background())
	defer cancel()
	ch := make(chan SolveResult, len(solvers))
	n := 0
	for _, sp := range solvers {
		if len(which) > 0 {
			ok := false
			for _, w := range which {
				if w == sp.name {
					ok = true
				}
			}
			if !ok {
				continue
			}
		}
		n++
		sp := sp
		go func() {
			p.sem <- struct{}{}
			defer func() { <-p.sem }()
			if ctx.Err() != nil {
				ch <- SolveResult{Solver: sp.name, Status: "cancelled"}
				return
			}
			ch <- runSolver(ctx, sp, file, timeoutS)
		}()
	}
	var best SolveResult
	var details []string
	for i := 0; i < n; i++ {
		r := <-ch
		if r.Status == "unsat" || r.Status == "sat" {
			best = r
			cancel()
			if p.cacheDir != "" {
				b, _ := json.Marshal(r)
				os.WriteFile(filepath.Join(p.cacheDir, key+".json"), b, 0o644)
			}
			// drain
			go func(rem int) {
				for j := 0; j < rem; j++ {
					<-ch
				}
			}(n - i - 1)
			return best
		}
		details = append(details, fmt.Sprintf("%s:%s(%.1fs)%s", r.Solver, r.Status, r.TimeS, firstLine(r.Detail)))
		if best.Status == "" || best.Status == "cancelled" || (best.Status == "error" && r.Status != "error") {
			best = r
		}
	}
	best.Detail = strings.Join(details, "; ")
	if best.Status == "error" {
		// all solvers errored
		return best
	}
	if best.Status != "timeout" {
		best.Status = "unknown"
	}
	return best
}

func firstLine(s string) string {
	s = strings.TrimSpace(s)
	if s == "" {
		return ""
	}
	if i := strings.Index(s, "\n"); i >= 0 {
		s = s[:i]
	}
	return " " + s
}

// replaceLits turns "text" tokens of a prelude module into string-literal constants.
func replaceLits(text string, tr *fnTrans) string {
	var sb strings.Builder
	i := 0
	for i < len(text) {
		c := text[i]
		if c == ';' {
			j := i
			for j < len(text) && text[j] != '\n' {
				j++
			}
			sb.WriteString(text[i:j])
			i = j
			continue
		}
		if c == '"' {
			j := i + 1
			for j < len(text) && text[j] != '"' {
				j++
			}
			sb.WriteString(tr.strLit(text[i+1 : j]))
			i = j + 1
			continue
		}
		sb.WriteByte(c)
		i++
	}
	return sb.String()
}

func hasQuant(f *sx) bool {
	if !f.isL {
		return f.atom == "forall" || f.atom == "exists"
	}
	for _, c := range f.list {
		if hasQuant(c) {
			return true
		}
	}
	return false
}

func stripQuantified(text string) string {
	forms, err := readSx(text)
	if err != nil {
		return text
	}
	var sb strings.Builder
	for _, f := range forms {
		if f.isL && len(f.list) > 0 && f.list[0].atom == "assert" && hasQuant(f) {
			continue
		}
		sb.WriteString(f.String())
		sb.WriteString("\n")
	}
	return sb.String()
}
