package main

import (
	"encoding/json"
	"fmt"
	"go/ast"
	"go/constant"
	"go/types"
	"os"
	"path/filepath"
	"sort"
	"strings"

	"golang.org/x/tools/go/packages"
	"golang.org/x/tools/go/ssa"
)

// Tables extracted on every run from the code that actually runs:
//   - the generated grammar tables (grammar/parser/symbols, grammar/parser/slot): for every slot label
//     its nonterminal, alternate, position and symbol string;
//   - the handler registry: the MapUpdate instructions of package exec's initialiser on contextFunctions;
//   - the builtin function table: the composite literal of exec.builtinFunctions.
type slotInfo struct {
	Label   int64
	Name    string
	NT      int64
	Alt     int64
	Pos     int64
	Symbols []symInfo
}

type symInfo struct {
	IsNT bool
	Val  int64
	Name string
}

type tables struct {
	ntByName map[string]int64
	ntNames  map[int64]string
	slots    []slotInfo
	handlers map[int64]*ssa.Function // NT -> registered handler
	tLit     map[int64]string        // terminal value -> literal text when known
	builtins map[string]string       // "local" -> function key (or "dispatch:<var>")
	errs     []string
}

func (v *verifier) findPkg(path string) *packages.Package {
	var found *packages.Package
	packages.Visit(v.pkgs, nil, func(p *packages.Package) {
		if p.PkgPath == path {
			found = p
		}
	})
	return found
}

func (v *verifier) loadTables() *tables {
	t := &tables{ntByName: map[string]int64{}, ntNames: map[int64]string{}, handlers: map[int64]*ssa.Function{}, tLit: map[int64]string{}, builtins: map[string]string{}}
	symPkg := v.findPkg(xselPath + "/grammar/parser/symbols")
	slotPkg := v.findPkg(xselPath + "/grammar/parser/slot")
	if symPkg == nil || slotPkg == nil {
		t.errs = append(t.errs, "generated grammar packages not found")
		return t
	}
	for _, name := range symPkg.Types.Scope().Names() {
		if c, ok := symPkg.Types.Scope().Lookup(name).(*types.Const); ok && strings.HasPrefix(name, "NT_") {
			if n, ok := constant.Int64Val(c.Val()); ok {
				t.ntByName[name] = n
				t.ntNames[n] = name
			}
		}
	}
	// terminal literals: symbols.tToString / a []string table indexed by T
	for _, f := range symPkg.Syntax {
		ast.Inspect(f, func(n ast.Node) bool {
			vs, ok := n.(*ast.ValueSpec)
			if !ok || len(vs.Names) != 1 || vs.Names[0].Name != "tToString" || len(vs.Values) != 1 {
				return true
			}
			if cl, ok := vs.Values[0].(*ast.CompositeLit); ok {
				for i, e := range cl.Elts {
					if kv, ok := e.(*ast.KeyValueExpr); ok {
						e = kv.Value
					}
					if tv, ok := symPkg.TypesInfo.Types[e]; ok && tv.Value != nil && tv.Value.Kind() == constant.String {
						t.tLit[int64(i)] = constant.StringVal(tv.Value)
					}
				}
			}
			return true
		})
	}
	// slots
	for _, f := range slotPkg.Syntax {
		ast.Inspect(f, func(n ast.Node) bool {
			vs, ok := n.(*ast.ValueSpec)
			if !ok || len(vs.Names) != 1 || vs.Names[0].Name != "slots" || len(vs.Values) != 1 {
				return true
			}
			cl, ok := vs.Values[0].(*ast.CompositeLit)
			if !ok {
				return true
			}
			constOf := func(e ast.Expr) (int64, bool) {
				tv, ok := slotPkg.TypesInfo.Types[e]
				if !ok || tv.Value == nil {
					return 0, false
				}
				return constant.Int64Val(constant.ToInt(tv.Value))
			}
			for _, e := range cl.Elts {
				kv, ok := e.(*ast.KeyValueExpr)
				if !ok {
					continue
				}
				si := slotInfo{}
				if id, ok := kv.Key.(*ast.Ident); ok {
					si.Name = id.Name
				}
				var ok1 bool
				si.Label, ok1 = constOf(kv.Key)
				sl, ok2 := kv.Value.(*ast.CompositeLit)
				if !ok1 || !ok2 || len(sl.Elts) < 4 {
					t.errs = append(t.errs, "unreadable slot entry "+si.Name)
					continue
				}
				si.NT, _ = constOf(sl.Elts[0])
				si.Alt, _ = constOf(sl.Elts[1])
				si.Pos, _ = constOf(sl.Elts[2])
				if syms, ok := sl.Elts[3].(*ast.CompositeLit); ok {
					for _, se := range syms.Elts {
						val, _ := constOf(se)
						tv := slotPkg.TypesInfo.Types[se]
						isNT := tv.Type != nil && strings.HasSuffix(tv.Type.String(), "symbols.NT")
						name := ""
						if sel, ok := se.(*ast.SelectorExpr); ok {
							name = sel.Sel.Name
						}
						si.Symbols = append(si.Symbols, symInfo{IsNT: isNT, Val: val, Name: name})
					}
				}
				t.slots = append(t.slots, si)
			}
			return true
		})
	}
	sort.Slice(t.slots, func(i, j int) bool { return t.slots[i].Label < t.slots[j].Label })
	// handler registry
	if ep := v.spkgs[xselPath+"/exec"]; ep != nil {
		if init := ep.Func("init"); init != nil {
			var scan func(fn *ssa.Function)
			scan = func(fn *ssa.Function) {
				for _, b := range fn.Blocks {
					for _, in := range b.Instrs {
						mu, ok := in.(*ssa.MapUpdate)
						if !ok {
							continue
						}
						ld, ok := mu.Map.(*ssa.UnOp)
						if !ok {
							continue
						}
						g, ok := ld.X.(*ssa.Global)
						if !ok || g.Name() != "contextFunctions" {
							continue
						}
						kc, ok := mu.Key.(*ssa.Const)
						if !ok {
							t.errs = append(t.errs, "contextFunctions: non-constant key")
							continue
						}
						k, _ := constant.Int64Val(constant.ToInt(kc.Value))
						val := mu.Value
						if ct, ok := val.(*ssa.ChangeType); ok {
							val = ct.X
						}
						f, ok := val.(*ssa.Function)
						if !ok {
							t.errs = append(t.errs, fmt.Sprintf("contextFunctions[%s]: value is not a function", t.ntNames[k]))
							continue
						}
						t.handlers[k] = f
					}
				}
			}
			scan(init)
			for _, m := range ep.Members {
				if f, ok := m.(*ssa.Function); ok && strings.HasPrefix(f.Name(), "init#") {
					scan(f)
				}
			}
		}
		// stores to the registry outside the initialisers are forbidden
		for _, fn := range v.funcs {
			if fn.Pkg != ep || strings.HasPrefix(fn.Name(), "init") {
				continue
			}
			for _, b := range fn.Blocks {
				for _, in := range b.Instrs {
					if mu, ok := in.(*ssa.MapUpdate); ok {
						if ld, ok := mu.Map.(*ssa.UnOp); ok {
							if g, ok := ld.X.(*ssa.Global); ok && (g.Name() == "contextFunctions" || g.Name() == "builtinFunctions") {
								t.errs = append(t.errs, fmt.Sprintf("%s updates %s at run time", fnKey(fn), g.Name()))
							}
						}
					}
				}
			}
		}
	}
	return t
}

// ntChildCount: number of nonterminal symbols of the alternate a slot label belongs to
func (si slotInfo) ntCount() int {
	n := 0
	for _, s := range si.Symbols {
		if s.IsNT {
			n++
		}
	}
	return n
}

// genTables renders the prelude module "gentables".
func (v *verifier) genTables() string {
	t := v.tabs
	var sb strings.Builder
	sb.WriteString("(declare-fun ntchild (S_bsr_BSR Int) S_bsr_BSR)\n")
	sb.WriteString(";; gentables: generated on every run from grammar/parser/{symbols,slot} and the initialiser of package exec\n")
	var names []string
	for n := range t.ntByName {
		names = append(names, n)
	}
	sort.Strings(names)
	for _, n := range names {
		fmt.Fprintf(&sb, "(define-fun %s () Int %d)\n", n, t.ntByName[n])
	}
	// label -> NT and NT-child count, for complete (end-of-rule) slots
	sb.WriteString("(declare-fun labelNT (Int) Int)\n(declare-fun labelNNT (Int) Int)\n(assert (forall ((l Int)) (! (>= (labelNNT l) 0) :pattern ((labelNNT l)))))\n")
	for _, si := range t.slots {
		if int(si.Pos) != len(si.Symbols) {
			continue
		}
		fmt.Fprintf(&sb, "(assert (= (labelNT %d) %d))\n(assert (= (labelNNT %d) %d))\n", si.Label, si.NT, si.Label, si.ntCount())
	}
	// nonterminals whose alternates all have the same number of nonterminal children
	cnt := map[int64]int{}
	same := map[int64]bool{}
	for _, si := range t.slots {
		if int(si.Pos) != len(si.Symbols) {
			continue
		}
		if c, ok := cnt[si.NT]; ok {
			if c != si.ntCount() {
				same[si.NT] = false
			}
		} else {
			cnt[si.NT] = si.ntCount()
			same[si.NT] = true
		}
	}
	var nts []int64
	for k := range cnt {
		nts = append(nts, k)
	}
	sort.Slice(nts, func(i, j int) bool { return nts[i] < nts[j] })
	for _, k := range nts {
		if same[k] {
			fmt.Fprintf(&sb, "(assert (forall ((l Int)) (! (=> (= (labelNT l) %d) (= (labelNNT l) %d)) :pattern ((labelNNT l)))))\n", k, cnt[k])
		}
	}
	// nonterminal of the i-th nonterminal child, for nonterminals with a single alternate (A-BSR: the forest follows the slot table)
	altCount := map[int64]int{}
	for _, si := range t.slots {
		if int(si.Pos) == len(si.Symbols) {
			altCount[si.NT]++
		}
	}
	for _, si := range t.slots {
		if int(si.Pos) != len(si.Symbols) || altCount[si.NT] != 1 {
			continue
		}
		idx := 0
		for _, sy := range si.Symbols {
			if sy.IsNT {
				fmt.Fprintf(&sb, "(assert (forall ((b S_bsr_BSR)) (! (=> (= (labelNT (f_S_bsr_BSR_Label b)) %d) (= (labelNT (f_S_bsr_BSR_Label (ntchild b %d))) %d)) :pattern ((ntchild b %d) (labelNT (f_S_bsr_BSR_Label b))))))\n", si.NT, idx, sy.Val, idx)
				idx++
			}
		}
	}
	sb.WriteString("(define-fun bwidth ((b S_bsr_BSR)) Int (- (f_S_bsr_BSR_rightExtent b) (f_S_bsr_BSR_leftExtent b)))\n(declare-fun realNode (S_bsr_BSR) Bool)\n")
	// handler registry as a total function
	var ks []int64
	for k := range t.handlers {
		ks = append(ks, k)
	}
	sort.Slice(ks, func(i, j int) bool { return ks[i] < ks[j] })
	seen := map[string]bool{}
	body := "Fn_nil"
	for i := len(ks) - 1; i >= 0; i-- {
		fn := "fn_" + sanitize(fnKey(t.handlers[ks[i]]))
		if !seen[fn] {
			seen[fn] = true
		}
		body = fmt.Sprintf("(ite (= k %d) %s %s)", ks[i], fn, body)
	}
	var fns []string
	for f := range seen {
		fns = append(fns, f)
	}
	sort.Strings(fns)
	for _, f := range fns {
		fmt.Fprintf(&sb, "(declare-const %s Fn)\n(assert (not (= %s Fn_nil)))\n", f, f)
	}
	fmt.Fprintf(&sb, "(define-fun handlerFn ((k Int)) Fn %s)\n", body)
	return sb.String()
}

// builtinTable reads the composite literal of exec.builtinFunctions and of every overloadHelper variable:
// name -> arity ("*" = any) -> function key.
func (v *verifier) builtinTable() (map[string]map[string]string, []string) {
	out := map[string]map[string]string{}
	var errs []string
	p := v.findPkg(xselPath + "/exec")
	if p == nil {
		return out, []string{"package exec not loaded"}
	}
	overloads := map[string]map[string]string{}
	var table *ast.CompositeLit
	for _, f := range p.Syntax {
		for _, d := range f.Decls {
			gd, ok := d.(*ast.GenDecl)
			if !ok {
				continue
			}
			for _, sp := range gd.Specs {
				vs, ok := sp.(*ast.ValueSpec)
				if !ok || len(vs.Names) != 1 || len(vs.Values) != 1 {
					continue
				}
				cl, ok := vs.Values[0].(*ast.CompositeLit)
				if !ok {
					continue
				}
				if vs.Names[0].Name == "builtinFunctions" {
					table = cl
					continue
				}
				if id, ok := cl.Type.(*ast.Ident); ok && id.Name == "overloadHelper" {
					m := map[string]string{}
					for _, e := range cl.Elts {
						kv, ok := e.(*ast.KeyValueExpr)
						if !ok {
							continue
						}
						tv := p.TypesInfo.Types[kv.Key]
						fn, ok2 := kv.Value.(*ast.Ident)
						if tv.Value == nil || !ok2 {
							errs = append(errs, "unreadable overloadHelper entry in "+vs.Names[0].Name)
							continue
						}
						m[tv.Value.ExactString()] = "exec." + fn.Name
					}
					overloads[vs.Names[0].Name] = m
				}
			}
		}
	}
	if table == nil {
		return out, append(errs, "exec.builtinFunctions: composite literal not found")
	}
	for _, e := range table.Elts {
		kv, ok := e.(*ast.KeyValueExpr)
		if !ok {
			continue
		}
		key, ok := kv.Key.(*ast.CompositeLit)
		if !ok || len(key.Elts) != 2 {
			errs = append(errs, "exec.builtinFunctions: unreadable key")
			continue
		}
		sp := p.TypesInfo.Types[key.Elts[0]]
		lo := p.TypesInfo.Types[key.Elts[1]]
		if sp.Value == nil || lo.Value == nil {
			errs = append(errs, "exec.builtinFunctions: non-constant key")
			continue
		}
		name := constant.StringVal(lo.Value)
		if s := constant.StringVal(sp.Value); s != "" {
			name = "{" + s + "}" + name
		}
		switch val := kv.Value.(type) {
		case *ast.Ident:
			out[name] = map[string]string{"*": "exec." + val.Name}
		case *ast.CallExpr:
			sel, ok := val.Fun.(*ast.SelectorExpr)
			id, ok2 := (ast.Expr)(nil), false
			if ok {
				id, ok2 = sel.X, true
			}
			if recv, ok3 := id.(*ast.Ident); ok && ok2 && ok3 && sel.Sel.Name == "build" && overloads[recv.Name] != nil {
				out[name] = overloads[recv.Name]
			} else {
				errs = append(errs, "exec.builtinFunctions["+name+"]: unrecognised value expression")
			}
		default:
			errs = append(errs, "exec.builtinFunctions["+name+"]: unrecognised value expression")
		}
	}
	return out, errs
}

// builtinObligations: the XPath 1.0 core function library (section 4, without id()) must be registered under
// its names, each name and arity bound to the Go function whose contract states that function's meaning.
// The expected binding is the specification side (/verif/spec/builtins.json).
func (v *verifier) builtinObligations() []*Obligation {
	var out []*Obligation
	raw, err := os.ReadFile(filepath.Join(v.specDir, "builtins.json"))
	if err != nil {
		return nil
	}
	var want map[string]struct {
		Props []string          `json:"props"`
		Fns   map[string]string `json:"fns"`
	}
	if err := json.Unmarshal(raw, &want); err != nil {
		return []*Obligation{{Name: "exec.builtinFunctions/table", Fn: "exec.builtinFunctions", Kind: "structural", Goal: "false", Src: "spec/builtins.json unreadable: " + err.Error(), Props: []string{"C04"}, tr: emptyTrans(v)}}
	}
	got, errs := v.builtinTable()
	var names []string
	for n := range want {
		names = append(names, n)
	}
	sort.Strings(names)
	for _, n := range names {
		w := want[n]
		goal := "true"
		src := fmt.Sprintf("builtin %s() is registered and bound to %v", n, w.Fns)
		g := got[n]
		if g == nil {
			goal = "false"
			src += " - NOT REGISTERED in exec.builtinFunctions"
		} else {
			for ar, fn := range w.Fns {
				if g[ar] != fn {
					goal = "false"
					src += fmt.Sprintf(" - arity %s is bound to %q", ar, g[ar])
				} else if c := v.contracts[fn]; c == nil || c.Trusted {
					goal = "false"
					src += fmt.Sprintf(" - %s has no verified contract", fn)
				}
			}
			for ar := range g {
				if _, ok := w.Fns[ar]; !ok {
					goal = "false"
					src += fmt.Sprintf(" - unexpected arity %s", ar)
				}
			}
		}
		out = append(out, &Obligation{Name: "exec.builtinFunctions/entry[" + n + "]", Fn: "exec.builtinFunctions", Kind: "structural", Goal: goal, Src: src,
			Props: append(append([]string{}, w.Props...), "C11"), tr: emptyTrans(v)})
	}
	goal := "true"
	if len(errs) > 0 {
		goal = "false"
	}
	out = append(out, &Obligation{Name: "exec.builtinFunctions/readable", Fn: "exec.builtinFunctions", Kind: "structural", Goal: goal,
		Src: "the table literal is in the shape the extractor understands " + strings.Join(errs, "; "), Props: []string{"C04", "C06", "C07", "C12", "C02", "C11"}, tr: emptyTrans(v)})
	return out
}

// genForest renders the prelude module "genforest" (opt-in: recursions over the parse forest): which nonterminals
// the children of a multi-alternate nonterminal can have, and the extent facts that serve as termination measure.
func (v *verifier) genForest() string {
	t := v.tabs
	var sb strings.Builder
	sb.WriteString(";; genforest: generated on every run from grammar/parser/slot\n;; requires: gentables\n")
	cnt := map[int64]int{}
	same := map[int64]bool{}
	for _, si := range t.slots {
		if int(si.Pos) != len(si.Symbols) {
			continue
		}
		if c, ok := cnt[si.NT]; ok {
			if c != si.ntCount() {
				same[si.NT] = false
			}
		} else {
			cnt[si.NT] = si.ntCount()
			same[si.NT] = true
		}
	}
	var nts []int64
	for k := range cnt {
		nts = append(nts, k)
	}
	sort.Slice(nts, func(i, j int) bool { return nts[i] < nts[j] })
	// nonterminals with several alternates that all have the same number of nonterminal symbols: the i-th child is
	// of one of the nonterminals the alternates name at that position (A-BSR)
	byNT := map[int64][]slotInfo{}
	for _, si := range t.slots {
		if int(si.Pos) == len(si.Symbols) {
			byNT[si.NT] = append(byNT[si.NT], si)
		}
	}
	for _, k := range nts {
		alts := byNT[k]
		if len(alts) < 2 || !same[k] || cnt[k] == 0 {
			continue
		}
		for idx := 0; idx < cnt[k]; idx++ {
			var opts []string
			seenOpt := map[int64]bool{}
			for _, si := range alts {
				j := 0
				for _, sy := range si.Symbols {
					if sy.IsNT {
						if j == idx && !seenOpt[sy.Val] {
							seenOpt[sy.Val] = true
							opts = append(opts, fmt.Sprintf("(= (labelNT (f_S_bsr_BSR_Label (ntchild b %d))) %d)", idx, sy.Val))
						}
						j++
					}
				}
			}
			fmt.Fprintf(&sb, "(assert (forall ((b S_bsr_BSR)) (! (=> (= (labelNT (f_S_bsr_BSR_Label b)) %d) (or %s)) :pattern ((ntchild b %d) (labelNT (f_S_bsr_BSR_Label b))))))\n", k, strings.Join(opts, " "), idx)
		}
	}
	// extents (A-BSR): the nonterminal children of a node the parser returned (realNode) are such nodes again and
	// span a part of its input - a proper part when every alternate of its nonterminal contains a terminal symbol.
	// Used as the measure of recursions over the forest.
	sb.WriteString("(assert (forall ((b S_bsr_BSR)) (! (=> (realNode b) (>= (bwidth b) 0)) :pattern ((realNode b)))))\n")
	sb.WriteString("(assert (forall ((b S_bsr_BSR) (i Int)) (! (=> (and (realNode b) (<= 0 i) (< i (labelNNT (f_S_bsr_BSR_Label b)))) (and (realNode (ntchild b i)) (<= (bwidth (ntchild b i)) (bwidth b)))) :pattern ((realNode b) (ntchild b i)))))\n")
	for _, k := range nts {
		allT := true
		for _, si := range byNT[k] {
			hasT := false
			for _, sy := range si.Symbols {
				if !sy.IsNT {
					hasT = true
				}
			}
			if !hasT {
				allT = false
			}
		}
		if allT && (cnt[k] > 0 || !same[k]) {
			fmt.Fprintf(&sb, "(assert (forall ((b S_bsr_BSR) (i Int)) (! (=> (and (realNode b) (= (labelNT (f_S_bsr_BSR_Label b)) %d) (<= 0 i) (< i (labelNNT (f_S_bsr_BSR_Label b)))) (< (bwidth (ntchild b i)) (bwidth b))) :pattern ((realNode b) (ntchild b i)))))\n", k)
		}
	}
	return sb.String()
}
