package main

import (
	"flag"
	"fmt"
	"os"
	"path/filepath"
	"sort"
	"strings"
	"sync"
	"time"
)

func main() {
	if len(os.Args) < 2 {
		fmt.Fprintln(os.Stderr, "usage: govc check|dump|list ...")
		os.Exit(2)
	}
	switch os.Args[1] {
	case "check":
		os.Exit(cmdCheck(os.Args[2:]))
	case "dump":
		os.Exit(cmdDump(os.Args[2:]))
	case "list":
		os.Exit(cmdList(os.Args[2:]))
	case "tables":
		v, err := newVerifier("/repo", filepath.Join(verifDir(), "spec"))
		if err != nil {
			fmt.Fprintln(os.Stderr, err)
			os.Exit(2)
		}
		fmt.Print(v.genTables())
		fmt.Println(v.tabs.errs)
	case "selftest":
		os.Exit(cmdSelftest(os.Args[2:]))
	default:
		fmt.Fprintln(os.Stderr, "unknown command", os.Args[1])
		os.Exit(2)
	}
}

func verifDir() string {
	if d := os.Getenv("VERIF_DIR"); d != "" {
		return d
	}
	return "/verif"
}

type funcReport struct {
	Key    string
	tr     *fnTrans
	Errors []string
}

// translateAll translates every function under contract selected by keep.
func (v *verifier) translateAll(keep func(c *Contract) bool) []*funcReport {
	var out []*funcReport
	for _, k := range v.sortedContractKeys() {
		c := v.contracts[k]
		if c.Extern || !keep(c) {
			continue
		}
		fn := v.funcs[k]
		if fn == nil {
			out = append(out, &funcReport{Key: k, Errors: []string{fmt.Sprintf("contract-orphaned: no function %s in the repository (%s:%d)", k, relPath(c.File), c.Line)}})
			continue
		}
		tr := v.translate(fn, c)
		out = append(out, &funcReport{Key: k, tr: tr, Errors: tr.errs})
	}
	return out
}

func cmdList(args []string) int {
	fs := flag.NewFlagSet("list", flag.ExitOnError)
	repo := fs.String("repo", "/repo", "repository")
	fs.Parse(args)
	v, err := newVerifier(*repo, filepath.Join(verifDir(), "spec"))
	if err != nil {
		fmt.Fprintln(os.Stderr, err)
		return 2
	}
	for _, k := range v.sortedContractKeys() {
		c := v.contracts[k]
		kind := "func"
		if c.Extern {
			kind = "extern"
		}
		if c.Trusted {
			kind = "trusted"
		}
		fmt.Printf("%-8s %-50s %v\n", kind, k, c.Props)
	}
	return 0
}

func cmdDump(args []string) int {
	fs := flag.NewFlagSet("dump", flag.ExitOnError)
	repo := fs.String("repo", "/repo", "repository")
	fname := fs.String("f", "", "function key (e.g. exec.unique)")
	out := fs.String("o", "/tmp/govc-dump", "output directory")
	solve := fs.Bool("solve", true, "also run the solvers")
	timeout := fs.Int("t", 20, "timeout (s)")
	match := fs.String("m", "", "only obligations whose name contains this")
	fs.Parse(args)
	v, err := newVerifier(*repo, filepath.Join(verifDir(), "spec"))
	if err != nil {
		fmt.Fprintln(os.Stderr, err)
		return 2
	}
	reps := v.translateAll(func(c *Contract) bool { return c.Pkg+"."+c.Name == *fname })
	if *fname == "lemmas" {
		tr := &fnTrans{key: "spec"}
		tr.obls = v.lemmaObligations("")
		reps = []*funcReport{{Key: "spec", tr: tr}}
	}
	if *fname == "dispatch" {
		tr := &fnTrans{key: "dispatch"}
		var errs []string
		tr.obls, errs = v.dispatchObligations()
		reps = []*funcReport{{Key: "dispatch", tr: tr, Errors: errs}}
	}
	if len(reps) == 0 {
		fmt.Fprintln(os.Stderr, "no contract for", *fname)
		return 2
	}
	os.MkdirAll(*out, 0o755)
	pool := newSolverPool(16, "")
	defer pool.close()
	for _, r := range reps {
		seenErr := map[string]bool{}
		for _, e := range r.Errors {
			if !seenErr[e] {
				seenErr[e] = true
				fmt.Println("ERROR:", e)
			}
		}
		if r.tr == nil {
			continue
		}
		for _, w := range r.tr.warns {
			if !seenErr[w] {
				seenErr[w] = true
				fmt.Println("WARNING:", w)
			}
		}
		var wg sync.WaitGroup
		for i, o := range r.tr.obls {
			if *match != "" && !strings.Contains(o.Name, *match) {
				continue
			}
			q := o.tr.queryText(o, true)
			fn := filepath.Join(*out, fmt.Sprintf("%03d_%s.smt2", i, sanitize(o.Name)))
			os.WriteFile(fn, []byte(q), 0o644)
			if *solve {
				wg.Add(1)
				go func(o *Obligation, q string, fn string) {
					defer wg.Done()
					res := pool.solve(q, *timeout, nil)
					o.Result = &res
				}(o, q, fn)
			}
		}
		wg.Wait()
		for i, o := range r.tr.obls {
			if o.Result == nil {
				continue
			}
			st := o.Result.Status
			mark := "ok  "
			if (o.Cover && st == "unsat") || (!o.Cover && st != "unsat") {
				mark = "FAIL"
			}
			fmt.Printf("%s %03d %-70s %-8s %-7s %.2fs %s\n", mark, i, o.Name, st, o.Result.Solver, o.Result.TimeS, o.Where)
		}
	}
	return 0
}

func cmdSelftest(args []string) int { return 0 }

var _ = sort.Strings
var _ = time.Now
