package main

import (
	"encoding/hex"
	"encoding/json"
	"fmt"
	"go/types"
	"math"
	"os"
	"os/exec"
	"path/filepath"
	"strconv"
	"strings"
)

// modelValues extracts (name -> body s-expression) from a solver model.
func modelValues(model string) map[string]*sx {
	out := map[string]*sx{}
	forms, err := readSx(model)
	if err != nil {
		return out
	}
	var walk func(f *sx)
	walk = func(f *sx) {
		if !f.isL {
			return
		}
		if len(f.list) == 5 && f.list[0].atom == "define-fun" && f.list[2].isL && len(f.list[2].list) == 0 {
			out[f.list[1].atom] = f.list[4]
			return
		}
		for _, c := range f.list {
			walk(c)
		}
	}
	for _, f := range forms {
		walk(f)
	}
	return out
}

func parseBits(a string) (uint64, int, bool) {
	if strings.HasPrefix(a, "#b") {
		v, err := strconv.ParseUint(a[2:], 2, 64)
		return v, len(a) - 2, err == nil
	}
	if strings.HasPrefix(a, "#x") {
		v, err := strconv.ParseUint(a[2:], 16, 64)
		return v, 4 * (len(a) - 2), err == nil
	}
	return 0, 0, false
}

func sxFloat(s *sx) (float64, bool) {
	if !s.isL {
		return 0, false
	}
	if len(s.list) == 4 && s.list[0].atom == "fp" {
		sg, _, ok1 := parseBits(s.list[1].atom)
		ex, _, ok2 := parseBits(s.list[2].atom)
		mn, _, ok3 := parseBits(s.list[3].atom)
		if ok1 && ok2 && ok3 {
			return math.Float64frombits(sg<<63 | ex<<52 | mn), true
		}
	}
	if len(s.list) == 4 && s.list[0].atom == "_" {
		switch s.list[1].atom {
		case "NaN":
			return math.NaN(), true
		case "+oo":
			return math.Inf(1), true
		case "-oo":
			return math.Inf(-1), true
		case "+zero":
			return 0, true
		case "-zero":
			return math.Copysign(0, -1), true
		}
	}
	return 0, false
}

func sxInt(s *sx) (int64, bool) {
	if !s.isL {
		v, err := strconv.ParseInt(s.atom, 10, 64)
		return v, err == nil
	}
	if len(s.list) == 2 && s.list[0].atom == "-" {
		v, ok := sxInt(s.list[1])
		return -v, ok
	}
	return 0, false
}

// replayOnRealCode runs the real function on the counterexample input and asks the
// solver whether the observed output violates the clause.  Supported: functions whose
// parameters and results are float64 / int / bool (receivers included).
func replayOnRealCode(run *checkRun, o *Obligation, data map[string]interface{}) bool {
	tr := o.tr
	if tr == nil || tr.fn == nil || o.Result == nil {
		return false
	}
	fn := tr.fn
	mv := modelValues(o.Result.Model)
	var argExprs []string
	var fixes []string
	inputs := map[string]string{}
	for _, p := range fn.Params {
		name := "p_" + sanitize(p.Name())
		body, ok := mv[name]
		b, isBasic := p.Type().Underlying().(*types.Basic)
		if !isBasic {
			data["replay"] = "not attempted: parameter " + p.Name() + " is not a scalar"
			return false
		}
		tn := types.TypeString(p.Type(), func(pk *types.Package) string {
			if pk == fn.Pkg.Pkg {
				return ""
			}
			return pk.Name()
		})
		tn = strings.TrimPrefix(tn, ".")
		switch {
		case b.Kind() == types.Float64:
			f := 0.0
			if ok {
				f, ok = sxFloat(body)
			}
			if !ok {
				f = 0
			}
			argExprs = append(argExprs, fmt.Sprintf("%s(math.Float64frombits(0x%016x))", tn, math.Float64bits(f)))
			fixes = append(fixes, fmt.Sprintf("(assert (= %s %s))", name, f64Lit(f)))
			inputs[p.Name()] = fmt.Sprintf("%v (bits %016x)", f, math.Float64bits(f))
		case b.Info()&types.IsInteger != 0:
			var n int64
			if ok {
				n, _ = sxInt(body)
			}
			argExprs = append(argExprs, fmt.Sprintf("%s(%d)", tn, n))
			fixes = append(fixes, fmt.Sprintf("(assert (= %s %s))", name, intLit(n)))
			inputs[p.Name()] = fmt.Sprint(n)
		case b.Kind() == types.Bool:
			v := ok && !body.isL && body.atom == "true"
			argExprs = append(argExprs, fmt.Sprintf("%s(%v)", tn, v))
			fixes = append(fixes, fmt.Sprintf("(assert (= %s %v))", name, v))
			inputs[p.Name()] = fmt.Sprint(v)
		default:
			data["replay"] = "not attempted: parameter " + p.Name() + " has unsupported type"
			return false
		}
	}
	res := fn.Signature.Results()
	for i := 0; i < res.Len(); i++ {
		b, isBasic := res.At(i).Type().Underlying().(*types.Basic)
		if !isBasic || !(b.Kind() == types.Float64 || b.Info()&types.IsInteger != 0 || b.Kind() == types.Bool || b.Kind() == types.String) {
			data["replay"] = "not attempted: result is not a scalar"
			return false
		}
	}
	// call expression
	call := fn.Name() + "(" + strings.Join(argExprs, ", ") + ")"
	if fn.Signature.Recv() != nil {
		call = "(" + argExprs[0] + ")." + fn.Name() + "(" + strings.Join(argExprs[1:], ", ") + ")"
	}
	var lhs []string
	var prints []string
	for i := 0; i < res.Len(); i++ {
		lhs = append(lhs, fmt.Sprintf("r%d", i))
		b := res.At(i).Type().Underlying().(*types.Basic)
		switch {
		case b.Kind() == types.Float64:
			prints = append(prints, fmt.Sprintf(`fmt.Printf("GOVC-RES %d f %%016x\n", math.Float64bits(float64(r%d)))`, i, i))
		case b.Kind() == types.Bool:
			prints = append(prints, fmt.Sprintf(`fmt.Printf("GOVC-RES %d b %%v\n", bool(r%d))`, i, i))
		case b.Kind() == types.String:
			prints = append(prints, fmt.Sprintf(`fmt.Printf("GOVC-RES %d s %%x\n", string(r%d))`, i, i))
		default:
			prints = append(prints, fmt.Sprintf(`fmt.Printf("GOVC-RES %d i %%d\n", int64(r%d))`, i, i))
		}
	}
	assign := ""
	if len(lhs) > 0 {
		assign = strings.Join(lhs, ", ") + " := "
	}
	src := fmt.Sprintf(`package %s

import (
	"fmt"
	"math"
	"testing"
)

var _ = math.Pi

func TestGovcReplay(t *testing.T) {
	defer func() {
		if r := recover(); r != nil {
			fmt.Printf("GOVC-PANIC %%v\n", r)
		}
	}()
	%s%s
	%s
}
`, fn.Pkg.Pkg.Name(), assign, call, strings.Join(prints, "\n\t"))
	tmp, err := os.MkdirTemp("", "govc-replay-")
	if err != nil {
		return false
	}
	defer os.RemoveAll(tmp)
	testFile := filepath.Join(tmp, "replay_test.go")
	os.WriteFile(testFile, []byte(src), 0o644)
	pkgDir := filepath.Join(run.v.repo, strings.TrimPrefix(fn.Pkg.Pkg.Path(), xselPath))
	ov := map[string]map[string]string{"Replace": {filepath.Join(pkgDir, "zz_govc_replay_test.go"): testFile}}
	ob, _ := json.Marshal(ov)
	ovFile := filepath.Join(tmp, "ov.json")
	os.WriteFile(ovFile, ob, 0o644)
	cmd := exec.Command("go", "test", "-overlay", ovFile, "-vet=off", "-v", "-count=1", "-timeout", "60s", "-run", "^TestGovcReplay$", ".")
	cmd.Dir = pkgDir
	cmd.Env = append(os.Environ(), "GOFLAGS=-mod=mod", "GOPROXY=off", "GOSUMDB=off", "GOTOOLCHAIN=local")
	outB, _ := cmd.CombinedOutput()
	out := string(outB)
	data["replay_input"] = inputs
	data["replay_call"] = call
	data["replay_cmd"] = "go test -overlay <ov.json> -vet=off -count=1 -timeout 60s -run ^TestGovcReplay$ . (in " + pkgDir + ")"
	data["replay_test_source"] = src
	if strings.Contains(out, "GOVC-PANIC") {
		i := strings.Index(out, "GOVC-PANIC")
		data["replay_observed"] = strings.SplitN(out[i:], "\n", 2)[0]
		data["replay"] = "confirmed: the real function panics on this input"
		return true
	}
	var resFix []string
	observed := map[string]string{}
	for _, line := range strings.Split(out, "\n") {
		f := strings.Fields(line)
		if len(f) == 3 && f[0] == "GOVC-RES" && f[2] == "s" {
			f = append(f, "")
		}
		if len(f) == 4 && f[0] == "GOVC-RES" {
			i, _ := strconv.Atoi(f[1])
			if i >= len(o.retTerms) {
				continue
			}
			switch f[2] {
			case "f":
				bits, _ := strconv.ParseUint(f[3], 16, 64)
				resFix = append(resFix, fmt.Sprintf("(assert (= %s %s))", o.retTerms[i], f64Lit(math.Float64frombits(bits))))
				observed[fmt.Sprint(i)] = fmt.Sprintf("%v (bits %s)", math.Float64frombits(bits), f[3])
			case "b":
				resFix = append(resFix, fmt.Sprintf("(assert (= %s %s))", o.retTerms[i], f[3]))
				observed[fmt.Sprint(i)] = f[3]
			case "s":
				raw, _ := hex.DecodeString(f[3])
				resFix = append(resFix, fmt.Sprintf("(assert (= %s %s))", o.retTerms[i], tr.strLit(string(raw))))
				observed[fmt.Sprint(i)] = fmt.Sprintf("%q", string(raw))
			case "i":
				n, _ := strconv.ParseInt(f[3], 10, 64)
				resFix = append(resFix, fmt.Sprintf("(assert (= %s %s))", o.retTerms[i], intLit(n)))
				observed[fmt.Sprint(i)] = f[3]
			}
		}
	}
	data["replay_observed"] = observed
	if len(resFix) != res.Len() || len(o.retTerms) == 0 {
		data["replay"] = "inconclusive: could not observe the result of the real function"
		if len(out) > 800 {
			out = out[len(out)-800:]
		}
		data["replay_output"] = out
		return false
	}
	// does the observed behaviour violate the clause?  (inputs fixed, output fixed, clause negated)
	q := tr.queryText2(o, false, o.relaxed)
	cut := strings.LastIndex(q, "(assert (not ")
	q2 := q[:cut] + strings.Join(fixes, "\n") + "\n" + strings.Join(resFix, "\n") + "\n" + q[cut:]
	r := run.pool.solve(q2, 30, nil)
	data["replay_confirm_status"] = r.Status
	if r.Status == "sat" {
		data["replay"] = "confirmed: the real function's output on this input violates the clause"
		return true
	}
	data["replay"] = "not reproduced: the real function's observed output does not violate the clause under the encoding (" + r.Status + ")"
	return false
}
