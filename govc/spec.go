package main

import (
	"fmt"
	"strconv"
	"strings"
	"unicode"
)

// ---------- spec expression AST ----------

type Expr interface{}

type (
	EIdent struct{ Name string }
	EInt   struct{ V string }
	EFloat struct{ V float64 }
	EStr   struct{ V string }
	EBool  struct{ V bool }
	ENil   struct{}
	EBin   struct {
		Op   string
		L, R Expr
	}
	EUn struct {
		Op string
		X  Expr
	}
	ECall struct {
		Fn   string
		Args []Expr
	}
	EIndex struct{ X, I Expr }
	EField struct {
		X Expr
		F string
	}
	BVar struct {
		Name string
		Sort string
	}
	EQuant struct {
		Forall bool
		Vars   []BVar
		Pats   [][]Expr
		Body   Expr
	}
	EOld struct{ X Expr }
	EIte struct{ C, A, B Expr }
	ELet struct {
		Name string
		Val  Expr
		Body Expr
	}
)

// ---------- tokenizer ----------

type tok struct {
	k string // "id", "int", "float", "str", "op", "eof"
	s string
}

func lexSpec(src string) ([]tok, error) {
	var out []tok
	i := 0
	for i < len(src) {
		c := src[i]
		switch {
		case c == ' ' || c == '\t' || c == '\n':
			i++
		case unicode.IsLetter(rune(c)) || c == '_' || c == '#':
			j := i + 1
			for j < len(src) && (unicode.IsLetter(rune(src[j])) || unicode.IsDigit(rune(src[j])) || src[j] == '_' || src[j] == '\'') {
				j++
			}
			out = append(out, tok{"id", src[i:j]})
			i = j
		case unicode.IsDigit(rune(c)):
			j := i
			isf := false
			for j < len(src) && (unicode.IsDigit(rune(src[j])) || src[j] == '.' || src[j] == 'e' || src[j] == 'x' ||
				(src[j] >= 'a' && src[j] <= 'f') || (src[j] >= 'A' && src[j] <= 'F') || src[j] == 'p' ||
				((src[j] == '-' || src[j] == '+') && j > i && (src[j-1] == 'e' || src[j-1] == 'p'))) {
				if src[j] == '.' || src[j] == 'p' {
					isf = true
				}
				if src[j] == 'e' && !strings.HasPrefix(src[i:], "0x") {
					isf = true
				}
				j++
			}
			if isf {
				out = append(out, tok{"float", src[i:j]})
			} else {
				out = append(out, tok{"int", src[i:j]})
			}
			i = j
		case c == '"':
			j := i + 1
			for j < len(src) && src[j] != '"' {
				if src[j] == '\\' {
					j++
				}
				j++
			}
			if j >= len(src) {
				return nil, fmt.Errorf("unterminated string")
			}
			s, err := strconv.Unquote(src[i : j+1])
			if err != nil {
				return nil, err
			}
			out = append(out, tok{"str", s})
			i = j + 1
		default:
			for _, op := range []string{"<==>", "==>", "::", "==", "!=", "<=", ">=", "&&", "||"} {
				if strings.HasPrefix(src[i:], op) {
					out = append(out, tok{"op", op})
					i += len(op)
					goto next
				}
			}
			if strings.ContainsRune("()[]{}<>+-*/%!,.:=", rune(c)) {
				out = append(out, tok{"op", string(c)})
				i++
			} else {
				return nil, fmt.Errorf("bad character %q in spec %q", c, src)
			}
		next:
		}
	}
	out = append(out, tok{"eof", ""})
	return out, nil
}

// ---------- parser ----------

type specParser struct {
	toks []tok
	p    int
}

func parseSpec(src string) (e Expr, err error) {
	toks, err := lexSpec(src)
	if err != nil {
		return nil, err
	}
	p := &specParser{toks: toks}
	defer func() {
		if r := recover(); r != nil {
			err = fmt.Errorf("spec parse error in %q: %v", src, r)
		}
	}()
	e = p.iff()
	if p.peek().k != "eof" {
		panic(fmt.Sprintf("trailing tokens at %q", p.peek().s))
	}
	return e, nil
}

func (p *specParser) peek() tok { return p.toks[p.p] }
func (p *specParser) next() tok { t := p.toks[p.p]; p.p++; return t }
func (p *specParser) isOp(s string) bool {
	t := p.peek()
	return t.k == "op" && t.s == s
}
func (p *specParser) accept(s string) bool {
	if p.isOp(s) {
		p.p++
		return true
	}
	return false
}
func (p *specParser) expect(s string) {
	if !p.accept(s) {
		panic(fmt.Sprintf("expected %q got %q", s, p.peek().s))
	}
}

func (p *specParser) iff() Expr {
	l := p.imp()
	for p.accept("<==>") {
		r := p.imp()
		l = EBin{"<==>", l, r}
	}
	return l
}
func (p *specParser) imp() Expr {
	l := p.or()
	if p.accept("==>") {
		r := p.imp()
		return EBin{"==>", l, r}
	}
	return l
}
func (p *specParser) or() Expr {
	l := p.and()
	for p.accept("||") {
		l = EBin{"||", l, p.and()}
	}
	return l
}
func (p *specParser) and() Expr {
	l := p.cmp()
	for p.accept("&&") {
		l = EBin{"&&", l, p.cmp()}
	}
	return l
}
func (p *specParser) cmp() Expr {
	l := p.add()
	for {
		t := p.peek()
		if t.k == "op" && (t.s == "==" || t.s == "!=" || t.s == "<" || t.s == "<=" || t.s == ">" || t.s == ">=") {
			p.p++
			r := p.add()
			l = EBin{t.s, l, r}
			continue
		}
		return l
	}
}
func (p *specParser) add() Expr {
	l := p.mul()
	for {
		if p.accept("+") {
			l = EBin{"+", l, p.mul()}
		} else if p.accept("-") {
			l = EBin{"-", l, p.mul()}
		} else {
			return l
		}
	}
}
func (p *specParser) mul() Expr {
	l := p.unary()
	for {
		if p.accept("*") {
			l = EBin{"*", l, p.unary()}
		} else if p.accept("/") {
			l = EBin{"/", l, p.unary()}
		} else if p.accept("%") {
			l = EBin{"%", l, p.unary()}
		} else {
			return l
		}
	}
}
func (p *specParser) unary() Expr {
	if p.accept("!") {
		return EUn{"!", p.unary()}
	}
	if p.accept("-") {
		return EUn{"-", p.unary()}
	}
	return p.postfix()
}
func (p *specParser) postfix() Expr {
	e := p.primary()
	for {
		if p.accept("[") {
			i := p.iff()
			p.expect("]")
			e = EIndex{e, i}
		} else if p.accept(".") {
			t := p.next()
			if t.k != "id" {
				panic("field name expected")
			}
			e = EField{e, t.s}
		} else {
			return e
		}
	}
}
func (p *specParser) primary() Expr {
	t := p.next()
	switch t.k {
	case "int":
		return EInt{t.s}
	case "float":
		f, err := strconv.ParseFloat(t.s, 64)
		if err != nil {
			panic(err)
		}
		return EFloat{f}
	case "str":
		return EStr{t.s}
	case "id":
		switch t.s {
		case "true":
			return EBool{true}
		case "false":
			return EBool{false}
		case "nil":
			return ENil{}
		case "forall", "exists":
			var vars []BVar
			for {
				n := p.next()
				if n.k != "id" {
					panic("bound variable expected")
				}
				s := p.next()
				if s.k != "id" {
					panic("sort expected")
				}
				vars = append(vars, BVar{n.s, s.s})
				if !p.accept(",") {
					break
				}
			}
			p.expect("::")
			var pats [][]Expr
			for p.accept("{") {
				var pat []Expr
				for {
					pat = append(pat, p.iff())
					if !p.accept(",") {
						break
					}
				}
				p.expect("}")
				pats = append(pats, pat)
			}
			body := p.iff()
			return EQuant{t.s == "forall", vars, pats, body}
		case "old":
			p.expect("(")
			e := p.iff()
			p.expect(")")
			return EOld{e}
		case "if":
			c := p.iff()
			if n := p.next(); n.s != "then" {
				panic("then expected")
			}
			a := p.iff()
			if n := p.next(); n.s != "else" {
				panic("else expected")
			}
			b := p.iff()
			return EIte{c, a, b}
		case "let":
			n := p.next()
			p.expect("=")
			v := p.iff()
			if n2 := p.next(); n2.s != "in" {
				panic("in expected")
			}
			b := p.iff()
			return ELet{n.s, v, b}
		}
		if p.accept("(") {
			var args []Expr
			if !p.accept(")") {
				for {
					args = append(args, p.iff())
					if !p.accept(",") {
						break
					}
				}
				p.expect(")")
			}
			return ECall{t.s, args}
		}
		return EIdent{t.s}
	case "op":
		if t.s == "(" {
			e := p.iff()
			p.expect(")")
			return e
		}
	}
	panic(fmt.Sprintf("unexpected token %q", t.s))
}

// ---------- contracts ----------

type Clause struct {
	Src   string
	E     Expr
	Label string
}

type LoopSpec struct {
	N    int
	Invs []Clause
	Dec  *Clause
}

type Contract struct {
	Pkg      string // package path
	Name     string // "unique", "forwardSort.Less", "exprContext.copy"
	Extern   bool   // assumed contract for a function outside the verified set
	Trusted  bool   // body not verified
	Params   []string
	Results  []string
	Props    []string
	Uses     []string
	Requires []Clause
	Ensures  []Clause
	Modifies []Clause
	Dec      *Clause
	Loops    map[int]*LoopSpec
	Pure     bool // extern only: result is a function of arguments (no heap effect)
	File     string
	Line     int
	MayPanic bool
	NoAlloc  bool // extern only (assumed): the callee allocates nothing the caller can reach, so heaps outside its modifies clause keep their version
	AbsCur   bool // a function of package store that only uses the Cursor interface: verified with Cursor abstract (the view of package exec)
	NonRec   bool // structural obligation: the function is not part of a call cycle (stack use does not depend on the input)
	Asserts  []Clause // lemma hints: assumed-after-proved facts at function entry
	Hints    map[string][]Clause // "callee#k" -> facts proved (then assumed) just before that call
	used     bool
}

var clauseKeywords = map[string]bool{
	"func": true, "extern": true, "property": true, "uses": true, "requires": true, "ensures": true,
	"modifies": true, "decreases": true, "loop": true, "invariant": true, "trusted": true, "pure": true,
	"maypanic": true, "nonrecursive": true, "noalloc": true, "abstractcursor": true, "lemma": true, "hint": true, "hintafter": true,
}

// parseContractFile reads //@ lines.
func parseContractFile(path, pkg, text string) ([]*Contract, error) {
	var out []*Contract
	var cur *Contract
	var curLoop *LoopSpec
	type pending struct {
		kw   string
		text string
		line int
	}
	var pend *pending
	flush := func() error {
		if pend == nil {
			return nil
		}
		pd := pend
		pend = nil
		kw, body := pd.kw, strings.TrimSpace(pd.text)
		mk := func() (Clause, error) {
			label := ""
			if i := strings.LastIndex(body, " @"); i >= 0 && !strings.ContainsAny(body[i+2:], " ()") {
				label = body[i+2:]
				body = strings.TrimSpace(body[:i])
			}
			e, err := parseSpec(body)
			if err != nil {
				return Clause{}, fmt.Errorf("%s:%d: %v", path, pd.line, err)
			}
			return Clause{Src: body, E: e, Label: label}, nil
		}
		switch kw {
		case "func", "extern":
			c, err := parseHeader(body)
			if err != nil {
				return fmt.Errorf("%s:%d: %v", path, pd.line, err)
			}
			c.Pkg = pkg
			c.Extern = kw == "extern"
			c.File = path
			c.Line = pd.line
			c.Loops = map[int]*LoopSpec{}
			out = append(out, c)
			cur = c
			curLoop = nil
		case "property":
			cur.Props = append(cur.Props, strings.Fields(body)...)
		case "uses":
			cur.Uses = append(cur.Uses, strings.Fields(body)...)
		case "trusted":
			cur.Trusted = true
		case "pure":
			cur.Pure = true
		case "maypanic":
			cur.MayPanic = true
		case "nonrecursive":
			cur.NonRec = true
		case "abstractcursor":
			cur.AbsCur = true
		case "noalloc":
			if !cur.Extern {
				return fmt.Errorf("%s: noalloc is only accepted on extern contracts", cur.Name)
			}
			cur.NoAlloc = true
		case "requires":
			c, err := mk()
			if err != nil {
				return err
			}
			cur.Requires = append(cur.Requires, c)
		case "ensures":
			c, err := mk()
			if err != nil {
				return err
			}
			cur.Ensures = append(cur.Ensures, c)
		case "hint", "hintafter":
			parts := strings.SplitN(body, " ", 2)
			if len(parts) != 2 {
				return fmt.Errorf("%s:%d: hint needs a call site and a formula", path, pd.line)
			}
			site := parts[0]
			body = parts[1]
			c, err := mk()
			if err != nil {
				return err
			}
			if cur.Hints == nil {
				cur.Hints = map[string][]Clause{}
			}
			if kw == "hintafter" {
				site = "after:" + site
			}
			cur.Hints[site] = append(cur.Hints[site], c)
		case "lemma":
			c, err := mk()
			if err != nil {
				return err
			}
			cur.Asserts = append(cur.Asserts, c)
		case "modifies":
			for _, part := range splitTop(body) {
				e, err := parseSpec(part)
				if err != nil {
					return fmt.Errorf("%s:%d: %v", path, pd.line, err)
				}
				cur.Modifies = append(cur.Modifies, Clause{Src: part, E: e})
			}
		case "decreases":
			c, err := mk()
			if err != nil {
				return err
			}
			if curLoop != nil {
				curLoop.Dec = &c
			} else {
				cur.Dec = &c
			}
		case "loop":
			n, err := strconv.Atoi(body)
			if err != nil {
				return fmt.Errorf("%s:%d: loop ordinal: %v", path, pd.line, err)
			}
			curLoop = &LoopSpec{N: n}
			cur.Loops[n] = curLoop
		case "invariant":
			if curLoop == nil {
				return fmt.Errorf("%s:%d: invariant outside loop", path, pd.line)
			}
			c, err := mk()
			if err != nil {
				return err
			}
			curLoop.Invs = append(curLoop.Invs, c)
		}
		return nil
	}
	macros := map[string]string{}
	var macroName string
	macroParams := map[string][]string{}
	expand := func(t string) string {
		for i := 0; i < 8 && strings.Contains(t, "$"); i++ {
			for k, v := range macros {
				t = strings.ReplaceAll(t, "$"+k+"$", v)
			}
			// parametrised: $NAME(a, b)$
			for k, ps := range macroParams {
				for {
					start := strings.Index(t, "$"+k+"(")
					if start < 0 {
						break
					}
					end := strings.Index(t[start+1:], ")$")
					if end < 0 {
						break
					}
					end += start + 1
					args := splitTop(t[start+len(k)+2 : end])
					body := macros[k+"()"]
					for j, pn := range ps {
						if j < len(args) {
							body = replaceWord(body, pn, args[j])
						}
					}
					if len(splitTop(body)) > 1 {
						t = t[:start] + body + t[end+2:] // an argument list
					} else {
						t = t[:start] + "(" + body + ")" + t[end+2:]
					}
				}
			}
		}
		return t
	}
	for ln, line := range strings.Split(text, "\n") {
		t := strings.TrimSpace(line)
		if !strings.HasPrefix(t, "//@") {
			continue
		}
		t = strings.TrimSpace(t[3:])
		if t == "" {
			macroName = ""
			continue
		}
		if strings.HasPrefix(t, "macro ") {
			if err := flush(); err != nil {
				return nil, err
			}
			parts := strings.SplitN(strings.TrimPrefix(t, "macro "), "=", 2)
			if len(parts) != 2 {
				return nil, fmt.Errorf("%s:%d: bad macro", path, ln+1)
			}
			macroName = strings.TrimSpace(parts[0])
			if i := strings.Index(macroName, "("); i > 0 && strings.HasSuffix(macroName, ")") {
				var ps []string
				for _, pn := range strings.Split(macroName[i+1:len(macroName)-1], ",") {
					ps = append(ps, strings.TrimSpace(pn))
				}
				macroName = macroName[:i]
				macroParams[macroName] = ps
				macroName += "()"
			}
			macros[macroName] = expand(strings.TrimSpace(parts[1]))
			continue
		}
		t = expand(t)
		// strip trailing comments introduced by " //"
		if i := strings.Index(t, " // "); i >= 0 {
			t = strings.TrimSpace(t[:i])
		}
		first := t
		rest := ""
		if i := strings.IndexAny(t, " \t"); i >= 0 {
			first, rest = t[:i], t[i+1:]
		}
		if clauseKeywords[first] {
			macroName = ""
			if err := flush(); err != nil {
				return nil, err
			}
			if cur == nil && first != "func" && first != "extern" {
				return nil, fmt.Errorf("%s:%d: clause before func header", path, ln+1)
			}
			pend = &pending{kw: first, text: rest, line: ln + 1}
		} else if macroName != "" && pend == nil {
			macros[macroName] += " " + t
		} else {
			if pend == nil {
				return nil, fmt.Errorf("%s:%d: continuation without clause", path, ln+1)
			}
			pend.text += " " + t
		}
	}
	if err := flush(); err != nil {
		return nil, err
	}
	return out, nil
}

func splitTop(s string) []string {
	var out []string
	depth := 0
	start := 0
	for i, c := range s {
		switch c {
		case '(', '[':
			depth++
		case ')', ']':
			depth--
		case ',':
			if depth == 0 {
				out = append(out, strings.TrimSpace(s[start:i]))
				start = i + 1
			}
		}
	}
	if strings.TrimSpace(s[start:]) != "" {
		out = append(out, strings.TrimSpace(s[start:]))
	}
	return out
}

// header: name(p1, p2) (r1, r2)
func parseHeader(s string) (*Contract, error) {
	i := strings.Index(s, "(")
	if i < 0 {
		return nil, fmt.Errorf("bad contract header %q", s)
	}
	c := &Contract{Name: strings.TrimSpace(s[:i])}
	j := strings.Index(s[i:], ")")
	if j < 0 {
		return nil, fmt.Errorf("bad contract header %q", s)
	}
	for _, p := range strings.Split(s[i+1:i+j], ",") {
		if p = strings.TrimSpace(p); p != "" {
			c.Params = append(c.Params, p)
		}
	}
	rest := strings.TrimSpace(s[i+j+1:])
	if rest != "" {
		if !strings.HasPrefix(rest, "(") || !strings.HasSuffix(rest, ")") {
			return nil, fmt.Errorf("bad result list in %q", s)
		}
		for _, p := range strings.Split(rest[1:len(rest)-1], ",") {
			if p = strings.TrimSpace(p); p != "" {
				c.Results = append(c.Results, p)
			}
		}
	}
	return c, nil
}

// replaceWord replaces whole-word occurrences of name in s.
func replaceWord(s, name, with string) string {
	var sb strings.Builder
	i := 0
	isW := func(c byte) bool {
		return c == '_' || (c >= '0' && c <= '9') || (c >= 'a' && c <= 'z') || (c >= 'A' && c <= 'Z')
	}
	for i < len(s) {
		if strings.HasPrefix(s[i:], name) && (i == 0 || !isW(s[i-1])) && (i+len(name) >= len(s) || !isW(s[i+len(name)])) {
			sb.WriteString(with)
			i += len(name)
			continue
		}
		sb.WriteByte(s[i])
		i++
	}
	return sb.String()
}
