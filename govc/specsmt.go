package main

import (
	"fmt"
	"math"
	"os"
	"path/filepath"
	"sort"
	"strings"
)

// ---------- S-expression reader (for the prelude) ----------

type sx struct {
	atom string
	list []*sx
	isL  bool
}

func (s *sx) String() string {
	if !s.isL {
		return s.atom
	}
	var parts []string
	for _, c := range s.list {
		parts = append(parts, c.String())
	}
	return "(" + strings.Join(parts, " ") + ")"
}

func readSx(src string) ([]*sx, error) {
	var stack [][]*sx
	cur := []*sx{}
	i := 0
	for i < len(src) {
		c := src[i]
		switch {
		case c == ';':
			for i < len(src) && src[i] != '\n' {
				i++
			}
		case c == ' ' || c == '\t' || c == '\n' || c == '\r':
			i++
		case c == '(':
			stack = append(stack, cur)
			cur = []*sx{}
			i++
		case c == ')':
			if len(stack) == 0 {
				return nil, fmt.Errorf("unbalanced )")
			}
			l := &sx{list: cur, isL: true}
			cur = stack[len(stack)-1]
			stack = stack[:len(stack)-1]
			cur = append(cur, l)
			i++
		case c == '|':
			j := i + 1
			for j < len(src) && src[j] != '|' {
				j++
			}
			cur = append(cur, &sx{atom: src[i : j+1]})
			i = j + 1
		case c == '"':
			j := i + 1
			for j < len(src) && src[j] != '"' {
				j++
			}
			cur = append(cur, &sx{atom: src[i : j+1]})
			i = j + 1
		default:
			j := i
			for j < len(src) && !strings.ContainsRune(" \t\n\r()", rune(src[j])) {
				j++
			}
			cur = append(cur, &sx{atom: src[i:j]})
			i = j
		}
	}
	if len(stack) != 0 {
		return nil, fmt.Errorf("unbalanced (")
	}
	return cur, nil
}

// ---------- prelude ----------

type FnSig struct {
	Name string
	Args []string // sort names (as written)
	Ret  string
}

type Module struct {
	Name     string
	Requires []string
	Text     string
	Forms    int
	Axioms   int
	Declares map[string]bool
}

type Prelude struct {
	Mods    map[string]*Module
	Sigs    map[string]*FnSig
	Sorts   map[string]*Sort // named sorts declared in the prelude
	Alias   map[string]string
	HeapFns []string
}

func loadPrelude(dir string) (*Prelude, error) {
	p := &Prelude{Mods: map[string]*Module{}, Sigs: map[string]*FnSig{}, Sorts: map[string]*Sort{}, Alias: map[string]string{}}
	files, _ := filepath.Glob(filepath.Join(dir, "*.smt2"))
	sort.Strings(files)
	for _, f := range files {
		b, err := os.ReadFile(f)
		if err != nil {
			return nil, err
		}
		name := strings.TrimSuffix(filepath.Base(f), ".smt2")
		if err := p.addModule(name, string(b)); err != nil {
			return nil, fmt.Errorf("%s: %v", f, err)
		}
	}
	return p, nil
}

func (p *Prelude) addModule(name, text string) error {
	m := &Module{Name: name, Text: text, Declares: map[string]bool{}}
	for _, line := range strings.Split(m.Text, "\n") {
		if strings.HasPrefix(line, ";; requires:") {
			m.Requires = append(m.Requires, strings.Fields(strings.TrimPrefix(line, ";; requires:"))...)
		}
		if strings.HasPrefix(line, ";; heapfn:") {
			p.HeapFns = append(p.HeapFns, strings.Fields(strings.TrimPrefix(line, ";; heapfn:"))...)
		}
	}
	forms, err := readSx(m.Text)
	if err != nil {
		return err
	}
	m.Forms = len(forms)
	for _, fm := range forms {
		if !fm.isL || len(fm.list) == 0 {
			continue
		}
		switch fm.list[0].atom {
		case "assert":
			m.Axioms++
		case "declare-sort":
			n := fm.list[1].atom
			p.Sorts[n] = &Sort{Name: n, Opaque: true}
		case "define-sort":
			n := fm.list[1].atom
			p.Alias[n] = fm.list[3].String()
			p.Sorts[n] = &Sort{Name: n}
		case "declare-fun":
			sig := &FnSig{Name: fm.list[1].atom, Ret: fm.list[3].String()}
			for _, a := range fm.list[2].list {
				sig.Args = append(sig.Args, a.String())
			}
			p.Sigs[sig.Name] = sig
			m.Declares[sig.Name] = true
		case "declare-const":
			p.Sigs[fm.list[1].atom] = &FnSig{Name: fm.list[1].atom, Ret: fm.list[2].String()}
		case "define-fun", "define-fun-rec":
			sig := &FnSig{Name: fm.list[1].atom, Ret: fm.list[3].String()}
			for _, a := range fm.list[2].list {
				sig.Args = append(sig.Args, a.list[1].String())
			}
			p.Sigs[sig.Name] = sig
		case "declare-datatypes":
			// ((Name 0)...) ((ctor (sel Sort)...)...)
			for k, d := range fm.list[1].list {
				dn := d.list[0].atom
				st := &Sort{Name: dn}
				p.Sorts[dn] = st
				for _, ctor := range fm.list[2].list[k].list {
					if !ctor.isL {
						p.Sigs[ctor.atom] = &FnSig{Name: ctor.atom, Ret: dn}
						p.Sigs["is"+ctor.atom] = &FnSig{Name: "(_ is " + ctor.atom + ")", Args: []string{dn}, Ret: "Bool"}
						continue
					}
					cn := ctor.list[0].atom
					sig := &FnSig{Name: cn, Ret: dn}
					for _, sl := range ctor.list[1:] {
						sig.Args = append(sig.Args, sl.list[1].String())
						p.Sigs[sl.list[0].atom] = &FnSig{Name: sl.list[0].atom, Args: []string{dn}, Ret: sl.list[1].String()}
					}
					p.Sigs[cn] = sig
					p.Sigs["is"+cn] = &FnSig{Name: "(_ is " + cn + ")", Args: []string{dn}, Ret: "Bool"}
				}
			}
		}
	}
	p.Mods[name] = m
	return nil
}

// closure of module names in dependency order
func (p *Prelude) closure(names []string) ([]string, error) {
	var out []string
	seen := map[string]bool{}
	var visit func(n string) error
	visit = func(n string) error {
		if seen[n] {
			return nil
		}
		seen[n] = true
		m := p.Mods[n]
		if m == nil {
			return fmt.Errorf("unknown prelude module %q", n)
		}
		for _, r := range m.Requires {
			if err := visit(r); err != nil {
				return err
			}
		}
		out = append(out, n)
		return nil
	}
	for _, n := range names {
		if err := visit(n); err != nil {
			return nil, err
		}
	}
	return out, nil
}

// ---------- spec -> SMT ----------

type specEnv struct {
	tr      *fnTrans
	vars    map[string]Term
	heap    map[string]string // current heap map terms by map name
	oldHeap map[string]string
	alloc   string
	alloc0  string
	inOld   bool
}

func (e *specEnv) clone() *specEnv {
	c := *e
	c.vars = map[string]Term{}
	for k, v := range e.vars {
		c.vars[k] = v
	}
	return &c
}

func (e *specEnv) heapTerm(name string) string {
	h := e.heap
	if e.inOld {
		h = e.oldHeap
	}
	if t, ok := h[name]; ok {
		return t
	}
	// untouched so far: the entry version
	return e.tr.heapEntry(name)
}

func (tr *fnTrans) sortByName(n string) (*Sort, error) {
	switch n {
	case "Int":
		return SInt, nil
	case "Bool":
		return SBool, nil
	case "F64":
		return SF64, nil
	case "Str":
		return SStr, nil
	case "Cursor":
		return SCur, nil
	case "Node":
		return SNode, nil
	case "Val":
		return SVal, nil
	case "Err":
		return SErr, nil
	case "Fn":
		return SFn, nil
	case "Slice":
		return SSl, nil
	}
	if strings.HasPrefix(n, "Ptr_") { // pointer to a struct: Ptr_<pkg>_<Type>
		if st, ok := tr.v.structSorts["S_"+n[4:]]; ok {
			return tr.v.ptrTo(st), nil
		}
	}
	if s, ok := tr.v.prelude.Sorts[n]; ok {
		return s, nil
	}
	if s, ok := tr.v.structSorts[n]; ok {
		return s, nil
	}
	if s, ok := tr.v.opaqueSorts[n]; ok {
		return s, nil
	}
	if strings.HasPrefix(n, "(") {
		return &Sort{Name: n}, nil
	}
	return nil, fmt.Errorf("unknown sort %q", n)
}

func isHeapSortName(n string) (mapName string, ok bool) {
	if strings.HasPrefix(n, "AH_") {
		return "A_" + n[3:], true
	}
	if strings.HasPrefix(n, "CH_") {
		return "H_" + n[3:], true
	}
	return "", false
}

func (tr *fnTrans) spec(x Expr, env *specEnv) (Term, error) {
	switch x := x.(type) {
	case EIdent:
		if t, ok := env.vars[x.Name]; ok {
			return t, nil
		}
		if sig, ok := tr.v.prelude.Sigs[x.Name]; ok && len(sig.Args) == 0 {
			s, err := tr.sortByName(sig.Ret)
			if err != nil {
				return Term{}, err
			}
			return T(sig.Name, s), nil
		}
		return Term{}, fmt.Errorf("unknown identifier %q", x.Name)
	case EInt:
		return T(x.V, SInt), nil
	case EFloat:
		return T(f64Lit(x.V), SF64), nil
	case EStr:
		return T(tr.strLit(x.V), SStr), nil
	case EBool:
		if x.V {
			return T("true", SBool), nil
		}
		return T("false", SBool), nil
	case ENil:
		return Term{"nil", nil}, nil
	case EOld:
		e2 := env.clone()
		e2.inOld = true
		return tr.spec(x.X, e2)
	case ELet:
		v, err := tr.spec(x.Val, env)
		if err != nil {
			return Term{}, err
		}
		e2 := env.clone()
		e2.vars[x.Name] = T(x.Name+"!l", v.T)
		b, err := tr.spec(x.Body, e2)
		if err != nil {
			return Term{}, err
		}
		return T(fmt.Sprintf("(let ((%s!l %s)) %s)", x.Name, v.S, b.S), b.T), nil
	case EIte:
		c, err := tr.spec(x.C, env)
		if err != nil {
			return Term{}, err
		}
		a, err := tr.spec(x.A, env)
		if err != nil {
			return Term{}, err
		}
		b, err := tr.spec(x.B, env)
		if err != nil {
			return Term{}, err
		}
		a, b = tr.unifyNil(a, b)
		a, b = coerceNum(a, b)
		return T(ite(c.S, a.S, b.S), a.T), nil
	case EUn:
		v, err := tr.spec(x.X, env)
		if err != nil {
			return Term{}, err
		}
		switch x.Op {
		case "!":
			return T(not(v.S), SBool), nil
		case "-":
			if v.T == SF64 {
				return T(app("fp.neg", v.S), SF64), nil
			}
			return T(app("-", v.S), SInt), nil
		}
	case EBin:
		l, err := tr.spec(x.L, env)
		if err != nil {
			return Term{}, err
		}
		r, err := tr.spec(x.R, env)
		if err != nil {
			return Term{}, err
		}
		l, r = tr.unifyNil(l, r)
		l, r = coerceNum(l, r)
		fl := l.T == SF64
		switch x.Op {
		case "<==>":
			return T(app("=", l.S, r.S), SBool), nil
		case "==>":
			return T(app("=>", l.S, r.S), SBool), nil
		case "&&":
			return T(and(l.S, r.S), SBool), nil
		case "||":
			return T(or(l.S, r.S), SBool), nil
		case "==":
			if l.T != nil && r.T != nil && l.T.Name != r.T.Name {
				return Term{}, fmt.Errorf("sort mismatch in ==: %s vs %s (%s, %s)", l.T.Name, r.T.Name, l.S, r.S)
			}
			return T(app("=", l.S, r.S), SBool), nil
		case "!=":
			if l.T != nil && r.T != nil && l.T.Name != r.T.Name {
				return Term{}, fmt.Errorf("sort mismatch in !=: %s vs %s", l.T.Name, r.T.Name)
			}
			return T(not(app("=", l.S, r.S)), SBool), nil
		case "<", "<=", ">", ">=":
			if fl {
				op := map[string]string{"<": "fp.lt", "<=": "fp.leq", ">": "fp.gt", ">=": "fp.geq"}[x.Op]
				return T(app(op, l.S, r.S), SBool), nil
			}
			return T(app(x.Op, l.S, r.S), SBool), nil
		case "+", "-", "*", "/", "%":
			if fl {
				op := map[string]string{"+": "fp.add", "-": "fp.sub", "*": "fp.mul", "/": "fp.div"}[x.Op]
				if op == "" {
					return Term{}, fmt.Errorf("%% on floats")
				}
				return T(app(op, "RNE", l.S, r.S), SF64), nil
			}
			if l.T == SStr && x.Op == "+" {
				return T(app("cat", l.S, r.S), SStr), nil
			}
			op := x.Op
			if op == "/" {
				op = "div"
			}
			if op == "%" {
				op = "mod"
			}
			return T(app(op, l.S, r.S), SInt), nil
		}
	case EIndex:
		b, err := tr.spec(x.X, env)
		if err != nil {
			return Term{}, err
		}
		i, err := tr.spec(x.I, env)
		if err != nil {
			return Term{}, err
		}
		if b.T == SStr {
			return T(app("sbyte", b.S, i.S), SInt), nil
		}
		if b.T == nil || b.T.Name != "Slice" || b.T.Elem == nil {
			return Term{}, fmt.Errorf("indexing non-slice %s", b.S)
		}
		h := env.heapTerm("A_" + b.T.Elem.Tag())
		tr.touchHeap("A_"+b.T.Elem.Tag(), b.T.Elem, true)
		return T(app("at_"+b.T.Elem.Tag(), h, b.S, i.S), b.T.Elem), nil
	case EField:
		b, err := tr.spec(x.X, env)
		if err != nil {
			return Term{}, err
		}
		st := b.T
		val := b.S
		if st != nil && st.Name == "Int" && st.Elem != nil { // pointer to struct
			tr.touchHeap("H_"+st.Elem.Tag(), st.Elem, false)
			val = sel(env.heapTerm("H_"+st.Elem.Tag()), b.S)
			st = st.Elem
		}
		if st == nil {
			return Term{}, fmt.Errorf("field %s of untyped term", x.F)
		}
		for _, f := range st.Fields {
			if f.Name == x.F {
				return T(app(fieldSel(st, f.Name), val), f.Sort), nil
			}
		}
		// promoted fields through embedded structs
		for _, f := range st.Fields {
			for _, g := range f.Sort.Fields {
				if g.Name == x.F {
					return T(app(fieldSel(f.Sort, g.Name), app(fieldSel(st, f.Name), val)), g.Sort), nil
				}
			}
		}
		return Term{}, fmt.Errorf("no field %s in %s", x.F, st.Name)
	case EQuant:
		e2 := env.clone()
		var decl []string
		for _, v := range x.Vars {
			s, err := tr.sortByName(v.Sort)
			if err != nil {
				return Term{}, err
			}
			name := v.Name + "!q"
			e2.vars[v.Name] = T(name, s)
			decl = append(decl, fmt.Sprintf("(%s %s)", name, s.Name))
		}
		b, err := tr.spec(x.Body, e2)
		if err != nil {
			return Term{}, err
		}
		body := b.S
		if len(x.Pats) > 0 {
			var ps []string
			for _, pat := range x.Pats {
				var ts []string
				for _, pe := range pat {
					pt, err := tr.spec(pe, e2)
					if err != nil {
						return Term{}, err
					}
					ts = append(ts, pt.S)
				}
				ps = append(ps, ":pattern ("+strings.Join(ts, " ")+")")
			}
			body = "(! " + body + " " + strings.Join(ps, " ") + ")"
		}
		q := "exists"
		if x.Forall {
			q = "forall"
		}
		return T(fmt.Sprintf("(%s (%s) %s)", q, strings.Join(decl, " "), body), SBool), nil
	case ECall:
		return tr.specCall(x, env)
	}
	return Term{}, fmt.Errorf("unsupported spec expression %#v", x)
}

func coerceNum(l, r Term) (Term, Term) {
	if l.T == SF64 && r.T == SInt {
		if f, ok := intLitToF(r.S); ok {
			return l, T(f, SF64)
		}
	}
	if r.T == SF64 && l.T == SInt {
		if f, ok := intLitToF(l.S); ok {
			return T(f, SF64), r
		}
	}
	return l, r
}

func intLitToF(s string) (string, bool) {
	neg := false
	if strings.HasPrefix(s, "(- ") {
		neg = true
		s = strings.TrimSuffix(strings.TrimPrefix(s, "(- "), ")")
	}
	var n float64
	if _, err := fmt.Sscanf(s, "%g", &n); err != nil {
		return "", false
	}
	for _, c := range s {
		if c < '0' || c > '9' {
			return "", false
		}
	}
	if neg {
		n = -n
		if n == 0 {
			n = math.Copysign(0, -1)
		}
	}
	return f64Lit(n), true
}

func (tr *fnTrans) unifyNil(l, r Term) (Term, Term) {
	if l.T == nil && r.T != nil {
		l = T(tr.nilOf(r.T), r.T)
	}
	if r.T == nil && l.T != nil {
		r = T(tr.nilOf(l.T), l.T)
	}
	return l, r
}

func (tr *fnTrans) nilOf(s *Sort) string {
	if s.Zero != "" {
		return s.Zero
	}
	return s.Name + "_nil"
}

func fieldSel(st *Sort, f string) string { return "f_" + st.Tag() + "_" + f }

func (tr *fnTrans) specCall(x ECall, env *specEnv) (Term, error) {
	var args []Term
	for _, a := range x.Args {
		t, err := tr.spec(a, env)
		if err != nil {
			return Term{}, err
		}
		args = append(args, t)
	}
	switch x.Fn {
	case "len":
		if len(args) == 1 {
			if args[0].T == SStr {
				return T(app("slen", args[0].S), SInt), nil
			}
			return T(slLen(args[0].S), SInt), nil
		}
	case "cap":
		return T(slCap(args[0].S), SInt), nil
	case "fresh": // slice or pointer allocated during this activation
		if args[0].T.Name == "Slice" {
			return T(app(">=", slArr(args[0].S), env.alloc0), SBool), nil
		}
		return T(app(">=", args[0].S, env.alloc0), SBool), nil
	case "allocated":
		al := env.alloc
		if env.inOld {
			al = env.alloc0
		}
		if args[0].T.Name == "Slice" {
			return T(and(app("<=", "0", slArr(args[0].S)), app("<", slArr(args[0].S), al)), SBool), nil
		}
		return T(and(app("<", "0", args[0].S), app("<", args[0].S), al), SBool), nil
	case "wf": // type invariant of a reference-typed value: it refers to allocated storage
		al := env.alloc
		if env.inOld {
			al = env.alloc0
		}
		return T(tr.wf(args[0], al), SBool), nil
	case "arr":
		return T(slArr(args[0].S), SInt), nil
	case "mget", "mhas": // lookups in Go maps (map sorts are generated per key/value type)
		if len(args) == 2 && args[0].T != nil && strings.HasPrefix(args[0].T.Name, "M_") {
			if x.Fn == "mhas" {
				return T(app("mhas_"+args[0].T.Name, args[0].S, args[1].S), SBool), nil
			}
			return T(app("mget_"+args[0].T.Name, args[0].S, args[1].S), args[0].T.Elem), nil
		}
		return Term{}, fmt.Errorf("%s of non-map", x.Fn)
	case "isa": // ghost: the pointer refers to an object allocated with its static struct type
		if args[0].T == nil || args[0].T.Name != "Int" || args[0].T.Elem == nil {
			return Term{}, fmt.Errorf("isa of non-pointer")
		}
		tn := "T_" + args[0].T.Elem.Tag()
		tr.touchHeap(tn, SBool, false)
		return T(sel(env.heapTerm(tn), args[0].S), SBool), nil
	case "unboxStr": // the string held by an interface value (boxing of a Go string into an opaque interface sort)
		if args[0].T == nil {
			return Term{}, fmt.Errorf("unboxStr of untyped value")
		}
		tr.v.declareBox(args[0].T, SStr, "string")
		if args[0].T == SStr {
			return args[0], nil
		}
		return T(app(fmt.Sprintf("unbox_%s_string", args[0].T.Name), args[0].S), SStr), nil
	case "holdsJsonNumber": // the dynamic type is encoding/json.Number (a named string type)
		if args[0].T == nil || !args[0].T.Opaque {
			return Term{}, fmt.Errorf("%s of a value that is not of an opaque interface sort", x.Fn)
		}
		tr.v.declareBox(args[0].T, SStr, "json_Number")
		return T(app(fmt.Sprintf("is_%s_json_Number", args[0].T.Name), args[0].S), SBool), nil
	case "boxedBool": // plain dynamic type test (no exclusion of the other basic types)
		if args[0].T == nil || !args[0].T.Opaque {
			return Term{}, fmt.Errorf("%s of a value that is not of an opaque interface sort", x.Fn)
		}
		tr.v.declareBox(args[0].T, SBool, "bool")
		return T(app(fmt.Sprintf("is_%s_bool", args[0].T.Name), args[0].S), SBool), nil
	case "unboxF64", "unboxBool", "holdsStr", "holdsF64", "holdsBool": // dynamic type tests / contents of an opaque interface value
		if args[0].T == nil || !args[0].T.Opaque {
			return Term{}, fmt.Errorf("%s of a value that is not of an opaque interface sort", x.Fn)
		}
		conc, tag := SStr, "string"
		switch x.Fn {
		case "unboxF64", "holdsF64":
			conc, tag = SF64, "float64"
		case "unboxBool", "holdsBool":
			conc, tag = SBool, "bool"
		}
		tr.v.declareBox(args[0].T, conc, tag)
		if strings.HasPrefix(x.Fn, "holds") {
			// an interface value has one dynamic type: holding a string excludes holding a float64 or a bool.  The
			// exclusion is part of the predicate (the boxing functions of different types are declared independently)
			parts := []string{app(fmt.Sprintf("is_%s_%s", args[0].T.Name, tag), args[0].S)}
			for _, o := range []struct {
				s *Sort
				t string
			}{{SStr, "string"}, {SF64, "float64"}, {SBool, "bool"}} {
				if o.t != tag {
					tr.v.declareBox(args[0].T, o.s, o.t)
					parts = append(parts, not(app(fmt.Sprintf("is_%s_%s", args[0].T.Name, o.t), args[0].S)))
				}
			}
			return T(and(parts...), SBool), nil
		}
		return T(app(fmt.Sprintf("unbox_%s_%s", args[0].T.Name, tag), args[0].S), conc), nil
	case "deref": // contents of the cell a pointer refers to
		if args[0].T == nil || args[0].T.Name != "Int" || args[0].T.Elem == nil {
			return Term{}, fmt.Errorf("deref of non-pointer")
		}
		es := args[0].T.Elem
		tr.touchHeap("H_"+es.Tag(), es, false)
		return T(sel(env.heapTerm("H_"+es.Tag()), args[0].S), es), nil
	case "off":
		return T(slOff(args[0].S), SInt), nil
	case "isNaN":
		return T(app("fp.isNaN", args[0].S), SBool), nil
	case "isInf":
		return T(app("fp.isInfinite", args[0].S), SBool), nil
	case "isZero":
		return T(app("fp.isZero", args[0].S), SBool), nil
	case "isNeg":
		return T(app("fp.isNegative", args[0].S), SBool), nil
	case "feq":
		return T(app("fp.eq", args[0].S, args[1].S), SBool), nil
	case "fneg":
		return T(app("fp.neg", args[0].S), SF64), nil
	case "fabs":
		return T(app("fp.abs", args[0].S), SF64), nil
	case "ffloor":
		return T(app("fp.roundToIntegral", "RTN", args[0].S), SF64), nil
	case "fceil":
		return T(app("fp.roundToIntegral", "RTP", args[0].S), SF64), nil
	case "ftrunc":
		return T(app("fp.roundToIntegral", "RTZ", args[0].S), SF64), nil
	case "fnan":
		return T("(_ NaN 11 53)", SF64), nil
	case "finf":
		return T("(_ +oo 11 53)", SF64), nil
	case "fninf":
		return T("(_ -oo 11 53)", SF64), nil
	}
	if x.Fn == "i2f" || x.Fn == "f2i" {
		_ = "conv axioms are opt-in (uses conv): identical conversion terms need no axioms"
	}
	sig, ok := tr.v.prelude.Sigs[x.Fn]
	if !ok {
		return Term{}, fmt.Errorf("unknown spec function %q", x.Fn)
	}
	// fill implicit heap parameters
	var strs []string
	ai := 0
	nImplicit := 0
	for _, a := range sig.Args {
		if _, ok := isHeapSortName(a); ok {
			nImplicit++
		}
	}
	explicitAll := len(args) == len(sig.Args)
	if !explicitAll && len(args) != len(sig.Args)-nImplicit {
		return Term{}, fmt.Errorf("%s: expected %d arguments, got %d", x.Fn, len(sig.Args)-nImplicit, len(args))
	}
	for _, a := range sig.Args {
		if mn, ok := isHeapSortName(a); ok && !explicitAll {
			es, err := tr.sortByName(mn[2:])
			if err != nil {
				return Term{}, err
			}
			tr.touchHeap(mn, es, strings.HasPrefix(mn, "A_"))
			strs = append(strs, env.heapTerm(mn))
			continue
		}
		at := args[ai]
		ai++
		if at.T == nil {
			s, err := tr.sortByName(a)
			if err != nil {
				return Term{}, err
			}
			at = T(tr.nilOf(s), s)
		}
		if at.T == SInt && a == "F64" {
			if f, ok := intLitToF(at.S); ok {
				at = T(f, SF64)
			}
		}
		if at.T.Name != a && !(tr.v.prelude.Alias[a] != "" && tr.v.prelude.Alias[a] == at.T.Name) {
			return Term{}, fmt.Errorf("%s: argument %d has sort %s, expected %s", x.Fn, ai, at.T.Name, a)
		}
		strs = append(strs, at.S)
	}
	rs, err := tr.sortByName(sig.Ret)
	if err != nil {
		return Term{}, err
	}
	if rs.Name == "Slice" && len(args) > 0 {
		// element sort heuristics: same as first slice argument
		for _, a := range args {
			if a.T != nil && a.T.Name == "Slice" && a.T.Elem != nil {
				rs = a.T
				break
			}
		}
		if rs.Elem == nil {
			rs = tr.v.sliceOf(SCur)
		}
	}
	return T(app(sig.Name, strs...), rs), nil
}
