package main

import (
	"fmt"
	"go/constant"
	"go/token"
	"go/types"
	"sort"
	"strings"

	"golang.org/x/tools/go/ssa"
)

type item struct {
	text  string
	isHyp bool
	needs string // prelude symbol this item mentions; dropped from queries whose modules do not declare it
	blk   int    // index of the basic block that produced it (-1: none)
}

type Obligation struct {
	Name     string   `json:"name"`
	Fn       string   `json:"fn"`
	Kind     string   `json:"kind"`
	Goal     string   `json:"-"`
	Pos      int      `json:"-"`
	Props    []string `json:"props"`
	Src      string   `json:"src,omitempty"`
	Where    string   `json:"where,omitempty"`
	Cover    bool     `json:"cover,omitempty"` // must NOT be unsat
	tr       *fnTrans
	Result   *SolveResult `json:"result,omitempty"`
	retTerms []string
	relaxed  bool
	onlyBlk  map[int]bool // when set: hypotheses produced by other basic blocks are left out (case-split obligations)
}

type heapInfo struct {
	elem  *Sort
	isArr bool
}

type Loc struct {
	heap  string
	isArr bool
	obj   string
	idx   string
	root  *Sort  // sort of the root cell
	path  []int  // field indices
	val   *Sort  // sort of addressed value
	nilOK bool   // obj known non-nil
	slice string // for slice elements: the slice term and index (reads become at_<sort> terms)
	sidx  string
}

type loopInfo struct {
	header *ssa.BasicBlock
	blocks map[*ssa.BasicBlock]bool
	ord    int
	spec   *LoopSpec
	// state captured at the header after havoc
	env      *specEnv
	inclSelf bool // (hints) also the definitions already translated in the block itself
}

type fnTrans struct {
	iterId   map[ssa.Value]string // string iterators: Range instruction -> object id of its ghost counter
	warns    []string
	hintSeen map[string]bool
	v      *verifier
	fn     *ssa.Function
	key    string
	c      *Contract
	items  []item
	obls   []*Obligation
	vals   map[ssa.Value]Term
	locs   map[ssa.Value]*Loc
	tuples map[ssa.Value][]Term

	maps     map[string]heapInfo
	mapOrder []string
	heap     map[string]string
	alloc    string
	outHeap  map[*ssa.BasicBlock]map[string]string
	outAlloc map[*ssa.BasicBlock]string
	inB      map[*ssa.BasicBlock]string
	edge     map[[2]int]string
	nver     int
	strLits  map[string]string
	strOrder []string

	loops    map[*ssa.BasicBlock]*loopInfo
	backEdge map[[2]int]bool
	bumps    map[*ssa.BasicBlock]map[string]bool // pass-1 result (input to pass 2)
	curBumps map[*ssa.BasicBlock]map[string]bool
	preMaps  []string
	preInfo  map[string]heapInfo

	entryEnv *specEnv
	params   map[string]Term
	cur      *ssa.BasicBlock
	errs     []string
	counters map[string]int
	uses     map[string]bool
	assumed  map[string]bool // extern / trusted contracts relied upon
	modTerms []modTarget
	dry      bool
	oblFrom  *ssa.BasicBlock // block an invariant obligation is checked from (tr.cur is nil there)
	ancCache map[*ssa.BasicBlock]map[int]bool
	shadow   map[ssa.Value]string
	retOrd   map[*ssa.Return]int
}

// (hintSeen: hint sites of the contract that matched a call site; an unmatched site is a contract error)
type modTarget struct {
	heap  string
	obj   string // object id term (entry state)
	field string // "" = whole object / whole array
}

func (tr *fnTrans) errorf(format string, a ...interface{}) {
	tr.errs = append(tr.errs, fmt.Sprintf(format, a...))
}

func (tr *fnTrans) curBlk() int {
	if tr.cur == nil {
		return -1
	}
	return tr.cur.Index
}
func (tr *fnTrans) decl(s string) { tr.items = append(tr.items, item{text: s, isHyp: false, blk: tr.curBlk()}) }
func (tr *fnTrans) hyp(s string) {
	if s == "true" {
		return
	}
	tr.items = append(tr.items, item{text: "(assert " + s + ")", isHyp: true, blk: tr.curBlk()})
}

func (tr *fnTrans) fresh(prefix string) string {
	tr.nver++
	return fmt.Sprintf("%s!%d", prefix, tr.nver)
}

func (tr *fnTrans) define(name string, s *Sort, body string) string {
	tr.decl(fmt.Sprintf("(define-fun %s () %s %s)", name, s.Name, body))
	return name
}

func (tr *fnTrans) declare(name string, s *Sort) string {
	tr.decl(fmt.Sprintf("(declare-const %s %s)", name, s.Name))
	return name
}

func heapSortName(hi heapInfo) string {
	if hi.isArr {
		return fmt.Sprintf("(Array Int (Array Int %s))", hi.elem.Name)
	}
	return fmt.Sprintf("(Array Int %s)", hi.elem.Name)
}

func (tr *fnTrans) heapEntry(name string) string { return name + "!0" }

func (tr *fnTrans) touchHeap(name string, elem *Sort, isArr bool) {
	if _, ok := tr.maps[name]; ok {
		return
	}
	tr.maps[name] = heapInfo{elem, isArr}
	tr.mapOrder = append(tr.mapOrder, name)
}

func (tr *fnTrans) curHeap(name string) string {
	if t, ok := tr.heap[name]; ok {
		return t
	}
	return tr.heapEntry(name)
}

func (tr *fnTrans) setHeap(name, term string) {
	hi := tr.maps[name]
	n := tr.fresh(name)
	// a constant (not a macro) so that heap versions can appear in patterns
	tr.decl(fmt.Sprintf("(declare-const %s %s)", n, heapSortName(hi)))
	tr.items = append(tr.items, item{text: fmt.Sprintf("(assert (= %s %s))", n, term), isHyp: false})
	tr.heap[name] = n
	tr.bump(name)
}

// atStep: elements of slices whose cells are untouched by a heap step read the same in both versions.
// `touched` is a formula over s!s, k!s describing the cells the step may change.  Both versions are
// triggers, so an element term in one version produces its counterpart in the other.
func (tr *fnTrans) atStep(name, h0, h1, touched string, touchedSlice ...string) {
	hi := tr.maps[name]
	if !hi.isArr || h0 == h1 {
		return
	}
	// spec functions declared `;; heapfn: f` depend only on the contents of their slice argument
	if len(touchedSlice) == 1 {
		for _, hf := range tr.v.prelude.HeapFns {
			sig := tr.v.prelude.Sigs[hf]
			if sig == nil || len(sig.Args) < 2 || sig.Args[0] != "AH_"+hi.elem.Tag() {
				continue
			}
			var decl, args []string
			for i, a := range sig.Args[2:] {
				decl = append(decl, fmt.Sprintf("(x!%d %s)", i, a))
				args = append(args, fmt.Sprintf("x!%d", i))
			}
			t1 := app(hf, append([]string{h1, "s!s"}, args...)...)
			t0 := app(hf, append([]string{h0, "s!s"}, args...)...)
			tr.hyp(fmt.Sprintf("(forall ((s!s Slice) %s) (! (=> (not %s) (= %s %s)) :pattern (%s) :pattern (%s)))",
				strings.Join(decl, " "), touchedSlice[0], t1, t0, t1, t0))
			tr.items[len(tr.items)-1].needs = hf
		}
	}
	at := "at_" + hi.elem.Tag()
	tr.hyp(fmt.Sprintf("(forall ((s!s Slice) (k!s Int)) (! (=> (not %s) (= (%s %s s!s k!s) (%s %s s!s k!s))) :pattern ((%s %s s!s k!s)) :pattern ((%s %s s!s k!s))))",
		touched, at, h1, at, h0, at, h1, at, h0))
}

func (tr *fnTrans) bump(name string) {
	if tr.cur == nil {
		return
	}
	m := tr.curBumps[tr.cur]
	if m == nil {
		m = map[string]bool{}
		tr.curBumps[tr.cur] = m
	}
	m[name] = true
}

func (tr *fnTrans) strLit(s string) string {
	if s == "" {
		return "str_empty"
	}
	if n, ok := tr.strLits[s]; ok {
		return n
	}
	n := litName(s)
	tr.strLits[s] = n
	tr.strOrder = append(tr.strOrder, s)
	return n
}

// litName: deterministic, readable constant name for a string literal
func litName(s string) string {
	h := uint32(2166136261)
	for i := 0; i < len(s); i++ {
		h = (h ^ uint32(s[i])) * 16777619
	}
	t := sanitize(s)
	if len(t) > 16 {
		t = t[:16]
	}
	return fmt.Sprintf("lit_%s_%04x", t, h&0xffff)
}

func (tr *fnTrans) env() *specEnv {
	e := &specEnv{tr: tr, vars: map[string]Term{}, heap: map[string]string{}, oldHeap: map[string]string{}, alloc: tr.alloc, alloc0: "alloc0"}
	for k, v := range tr.params {
		e.vars[k] = v
	}
	for k, v := range tr.heap {
		e.heap[k] = v
	}
	return e
}

func (tr *fnTrans) oblige(kind, name, goal, src string, pos token.Pos) *Obligation {
	in := "true"
	if tr.cur != nil {
		in = tr.inB[tr.cur]
	}
	o := &Obligation{Name: tr.key + "/" + name, Fn: tr.key, Kind: kind, Goal: implies(in, goal), Pos: len(tr.items), Src: src, tr: tr}
	if tr.cur != nil {
		o.onlyBlk = tr.ancestors(tr.cur)
	} else if tr.oblFrom != nil {
		o.onlyBlk = tr.ancestors(tr.oblFrom)
	}
	if tr.c != nil {
		o.Props = tr.c.Props
	}
	if pos.IsValid() && tr.v.fset != nil {
		p := tr.v.fset.Position(pos)
		o.Where = fmt.Sprintf("%s:%d", relPath(p.Filename), p.Line)
	}
	tr.obls = append(tr.obls, o)
	return o
}

// safety obligation followed by assuming it
func (tr *fnTrans) safe(what string, cond string, pos token.Pos) {
	if cond == "true" {
		return
	}
	tr.counters[what]++
	tr.oblige("safe", fmt.Sprintf("safe[%s#%d]", what, tr.counters[what]), cond, "", pos)
	tr.hyp(implies(tr.inB[tr.cur], cond))
}

// ---------- values ----------

func (tr *fnTrans) val(v ssa.Value) Term {
	if t, ok := tr.vals[v]; ok {
		return t
	}
	switch v := v.(type) {
	case *ssa.Const:
		return tr.constant(v)
	case *ssa.Function:
		name := "fn_" + sanitize(fnKey(v))
		t := T(name, SFn)
		if tr.v.genFn[name] {
			tr.uses["gentables"] = true
			tr.vals[v] = t
			return t
		}
		if _, ok := tr.vals[v]; !ok {
			tr.decl(fmt.Sprintf("(declare-const %s Fn)", name))
			tr.hyp(fmt.Sprintf("(not (= %s Fn_nil))", name))
			tr.vals[v] = t
		}
		return t
	case *ssa.Global:
		// address of a package-level variable: a fixed object id
		s, err := tr.v.sortOf(v.Type())
		if err != nil {
			tr.errorf("global %s: %v", v.Name(), err)
			return T("0", SInt)
		}
		name := "glob_" + sanitize(v.Pkg.Pkg.Name()+"_"+v.Name())
		tr.decl(fmt.Sprintf("(declare-const %s Int)", name))
		tr.hyp(fmt.Sprintf("(and (< 0 %s) (< %s alloc0))", name, name))
		t := T(name, s)
		tr.vals[v] = t
		return t
	}
	if _, ok := tr.locs[v]; ok {
		tr.errorf("address value %s used as first-class pointer", v.Name())
		return T("0", SInt)
	}
	tr.errorf("no translation for value %s (%T) in %s", v.Name(), v, tr.key)
	return T("0", SInt)
}

func (tr *fnTrans) constant(c *ssa.Const) Term {
	s, err := tr.v.sortOf(c.Type())
	if err != nil {
		tr.errorf("const: %v", err)
		return T("0", SInt)
	}
	if c.Value == nil {
		if s == nil {
			return Term{"nil", nil}
		}
		return T(tr.nilOf(s), s)
	}
	switch s {
	case SBool:
		if constant.BoolVal(c.Value) {
			return T("true", SBool)
		}
		return T("false", SBool)
	case SInt:
		if i, ok := constant.Int64Val(constant.ToInt(c.Value)); ok {
			return T(intLit(i), SInt)
		}
		if u, ok := constant.Uint64Val(constant.ToInt(c.Value)); ok {
			return T(fmt.Sprintf("%d", u), SInt)
		}
	case SF64:
		f, _ := constant.Float64Val(c.Value)
		return T(f64Lit(f), SF64)
	case SStr:
		return T(tr.strLit(constant.StringVal(c.Value)), SStr)
	}
	tr.errorf("unsupported constant %s", c)
	return T("0", SInt)
}

func (tr *fnTrans) sortOfV(v ssa.Value) *Sort {
	s, err := tr.v.sortOf(v.Type())
	if err != nil {
		tr.errorf("%v", err)
		return SInt
	}
	return s
}

// type invariants of reference-typed values
func (tr *fnTrans) wf(t Term, alloc string) string {
	if t.T == nil {
		return "true"
	}
	switch {
	case t.T == SVal:
		return implies(app("(_ is VSet)", t.S), app("wfslice", app("vset", t.S), alloc))
	case t.T.Name == "Slice":
		return app("wfslice", t.S, alloc)
	case t.T.Name == "Int" && t.T.Elem != nil:
		if tr.v.typedSorts[t.T.Elem.Name] {
			tn := "T_" + t.T.Elem.Tag()
			tr.touchHeap(tn, SBool, false)
			return and(app("<=", "0", t.S), app("<", t.S, alloc), or(app("=", t.S, "0"), sel(tr.curHeap(tn), t.S)))
		}
		return and(app("<=", "0", t.S), app("<", t.S, alloc))
	}
	return "true"
}

// ---------- locations ----------

func (tr *fnTrans) locOf(v ssa.Value, pos token.Pos) *Loc {
	if l, ok := tr.locs[v]; ok {
		return l
	}
	// a first-class pointer: cell in H_<sort>
	t := tr.val(v)
	if t.T == nil || t.T.Elem == nil {
		tr.errorf("dereference of non-pointer %s", v.Name())
		return &Loc{heap: "H_Int", root: SInt, val: SInt, obj: "0"}
	}
	es := t.T.Elem
	name := "H_" + es.Tag()
	tr.touchHeap(name, es, false)
	l := &Loc{heap: name, obj: t.S, root: es, val: es}
	if _, isAlloc := v.(*ssa.Alloc); isAlloc {
		l.nilOK = true
	}
	if _, isGlob := v.(*ssa.Global); isGlob {
		l.nilOK = true
	}
	return l
}

func (tr *fnTrans) rootTerm(l *Loc, heapTerm string) string {
	if l.isArr {
		return sel(sel(heapTerm, l.obj), l.idx)
	}
	return sel(heapTerm, l.obj)
}

func (tr *fnTrans) project(root string, rs *Sort, path []int) (string, *Sort) {
	cur, cs := root, rs
	for _, i := range path {
		f := cs.Fields[i]
		cur = app(fieldSel(cs, f.Name), cur)
		cs = f.Sort
	}
	return cur, cs
}

func (tr *fnTrans) update(root string, rs *Sort, path []int, v string) string {
	if len(path) == 0 {
		return v
	}
	var args []string
	for i, f := range rs.Fields {
		sub := app(fieldSel(rs, f.Name), root)
		if i == path[0] {
			args = append(args, tr.update(sub, f.Sort, path[1:], v))
		} else {
			args = append(args, sub)
		}
	}
	return app("mk_"+rs.Name, args...)
}

func (tr *fnTrans) load(l *Loc, pos token.Pos) Term {
	if !l.nilOK && !l.isArr {
		tr.safe("nil", not(app("=", l.obj, "0")), pos)
	}
	root := tr.rootTerm(l, tr.curHeap(l.heap))
	if l.slice != "" {
		root = app("at_"+l.root.Tag(), tr.curHeap(l.heap), l.slice, l.sidx)
	}
	s, vs := tr.project(root, l.root, l.path)
	return T(s, vs)
}

func (tr *fnTrans) storeTo(l *Loc, v Term, pos token.Pos) {
	if !l.nilOK && !l.isArr {
		tr.safe("nil", not(app("=", l.obj, "0")), pos)
	}
	h := tr.curHeap(l.heap)
	if v.T == nil {
		v = T(tr.nilOf(l.val), l.val)
	}
	newRoot := tr.update(tr.rootTerm(l, h), l.root, l.path, v.S)
	if l.isArr {
		tr.setHeap(l.heap, store(h, l.obj, store(sel(h, l.obj), l.idx, newRoot)))
		tr.atStep(l.heap, h, tr.curHeap(l.heap), and(app("=", "(sarr s!s)", l.obj), app("=", "(+ (soff s!s) k!s)", l.idx)), app("=", "(sarr s!s)", l.obj))
	} else {
		tr.setHeap(l.heap, store(h, l.obj, newRoot))
	}
}

// ---------- function translation ----------

func newFnTrans(v *verifier, fn *ssa.Function, c *Contract, pre *fnTrans) *fnTrans {
	key := "spec"
	if fn != nil {
		key = fnKey(fn)
	}
	tr := &fnTrans{v: v, fn: fn, key: key, c: c,
		vals: map[ssa.Value]Term{}, locs: map[ssa.Value]*Loc{}, tuples: map[ssa.Value][]Term{},
		maps: map[string]heapInfo{}, heap: map[string]string{},
		outHeap: map[*ssa.BasicBlock]map[string]string{}, outAlloc: map[*ssa.BasicBlock]string{},
		inB: map[*ssa.BasicBlock]string{}, edge: map[[2]int]string{}, strLits: map[string]string{},
		loops: map[*ssa.BasicBlock]*loopInfo{}, backEdge: map[[2]int]bool{},
		curBumps: map[*ssa.BasicBlock]map[string]bool{}, params: map[string]Term{}, counters: map[string]int{},
		uses: map[string]bool{}, assumed: map[string]bool{}, shadow: map[ssa.Value]string{}, retOrd: map[*ssa.Return]int{}}
	if pre != nil {
		tr.bumps = pre.curBumps
		tr.preMaps = pre.mapOrder
		tr.preInfo = pre.maps
	} else {
		tr.dry = true
	}
	return tr
}

// translate runs pass 1 (discovery) and pass 2.
func (v *verifier) translate(fn *ssa.Function, c *Contract) *fnTrans {
	old := v.curPkg
	if fn.Pkg != nil {
		v.curPkg = fn.Pkg.Pkg.Path()
	}
	if c != nil && c.AbsCur {
		v.curPkg = xselPath + "/exec"
	}
	defer func() { v.curPkg = old }()
	p1 := newFnTrans(v, fn, c, nil)
	p1.run()
	p2 := newFnTrans(v, fn, c, p1)
	p2.run()
	return p2
}

func (tr *fnTrans) run() {
	defer func() {
		if r := recover(); r != nil {
			tr.errorf("internal error translating %s: %v", tr.key, r)
		}
	}()
	fn, c := tr.fn, tr.c
	for _, u := range c.Uses {
		tr.uses[u] = true
	}
	tr.preludeHeaps(c.Uses)
	for _, n := range tr.preMaps {
		tr.touchHeap(n, tr.preInfo[n].elem, tr.preInfo[n].isArr)
	}
	tr.alloc = "alloc0"
	// parameters
	if len(c.Params) != len(fn.Params) {
		tr.errorf("contract for %s binds %d parameters, function has %d", tr.key, len(c.Params), len(fn.Params))
		return
	}
	for i, p := range fn.Params {
		s := tr.sortOfV(p)
		name := "p_" + sanitize(p.Name())
		tr.declare(name, s)
		t := T(name, s)
		tr.vals[p] = t
		tr.params[c.Params[i]] = t
		if _, ok := tr.params[p.Name()]; !ok {
			tr.params[p.Name()] = t
		}
		tr.hyp(tr.wf(t, "alloc0"))
	}
	for _, fv := range fn.FreeVars {
		s := tr.sortOfV(fv)
		name := "fv_" + sanitize(fv.Name())
		tr.declare(name, s)
		t := T(name, s)
		tr.vals[fv] = t
		tr.params[fv.Name()] = t
		tr.hyp(tr.wf(t, "alloc0"))
	}
	tr.typedMapFacts("alloc0")
	tr.entryEnv = tr.env()
	// modifies targets (entry state)
	for _, m := range c.Modifies {
		tr.modTargets(m, tr.entryEnv, &tr.modTerms)
	}
	// requires
	for _, r := range c.Requires {
		t, err := tr.spec(r.E, tr.entryEnv)
		if err != nil {
			tr.errorf("%s: requires %s: %v", tr.key, r.Src, err)
			continue
		}
		tr.hyp(t.S)
	}
	// vacuity guard: the precondition (with the prelude) must be satisfiable
	cov := tr.oblige("cover", "cover[entry]", "false", "", fn.Pos())
	cov.Cover = true
	// lemma hints at entry: proved, then assumed
	for i, a := range c.Asserts {
		t, err := tr.spec(a.E, tr.entryEnv)
		if err != nil {
			tr.errorf("%s: lemma %s: %v", tr.key, a.Src, err)
			continue
		}
		tr.oblige("lemma", fmt.Sprintf("lemma[%s]", labelOr(a.Label, i)), t.S, a.Src, fn.Pos())
		tr.hyp(t.S)
	}
	if c.NonRec {
		goal := "true"
		if cyc := callCycle(fn); cyc != "" {
			goal = "false"
			tr.oblige("structural", "nonrecursive", goal, "the function must not be part of a call cycle: "+cyc, fn.Pos())
		} else {
			tr.oblige("structural", "nonrecursive", goal, "no call cycle through this function (stack use independent of the number of events)", fn.Pos())
		}
	}
	if c.Trusted || len(fn.Blocks) == 0 {
		return
	}
	if c.Pure {
		tr.checkPure()
	}
	tr.findLoops()
	nAst := loopCountAST(fn)
	if len(tr.loops) != nAst && !tr.dry {
		// loops eliminated by the compiler (e.g. constant conditions) are tolerated only if no spec refers to them
		for n := range c.Loops {
			if n >= len(tr.loops) {
				tr.errorf("contract-orphaned: %s has %d loops, contract refers to loop %d", tr.key, len(tr.loops), n)
			}
		}
	}
	var rets []*ssa.Return
	for _, b := range fn.Blocks {
		for _, in := range b.Instrs {
			if r, ok := in.(*ssa.Return); ok {
				rets = append(rets, r)
			}
		}
	}
	sort.SliceStable(rets, func(i, j int) bool { return rets[i].Pos() < rets[j].Pos() })
	for i, r := range rets {
		tr.retOrd[r] = i + 1
	}
	order := tr.topoOrder()
	for _, b := range order {
		tr.block(b)
	}
	if !tr.dry {
		for site := range c.Hints {
			if !tr.hintSeen[site] {
				tr.errorf("contract-orphaned: %s: hint site %q matches no call in the function", tr.key, site)
			}
		}
	}
}

func labelOr(l string, i int) string {
	if l != "" {
		return "@" + l
	}
	return fmt.Sprintf("%d", i)
}

// modifies clause: `p.f`, `p` (whole object), `arr(s)` / `s[..]` (array contents)
func (tr *fnTrans) modTargets(m Clause, env *specEnv, out *[]modTarget) {
	switch x := m.E.(type) {
	case EField:
		b, err := tr.spec(x.X, env)
		if err != nil || b.T == nil || b.T.Elem == nil {
			tr.errorf("%s: modifies %s: bad target (%v)", tr.key, m.Src, err)
			return
		}
		name := "H_" + b.T.Elem.Tag()
		tr.touchHeap(name, b.T.Elem, false)
		*out = append(*out, modTarget{heap: name, obj: b.S, field: x.F})
	case ECall:
		if x.Fn == "arr" && len(x.Args) == 1 {
			b, err := tr.spec(x.Args[0], env)
			if err != nil || b.T == nil || b.T.Name != "Slice" {
				tr.errorf("%s: modifies %s: bad target (%v)", tr.key, m.Src, err)
				return
			}
			name := "A_" + b.T.Elem.Tag()
			tr.touchHeap(name, b.T.Elem, true)
			*out = append(*out, modTarget{heap: name, obj: slArr(b.S)})
			return
		}
		if x.Fn == "obj" && len(x.Args) == 1 { // the whole object a pointer-valued expression refers to
			b, err := tr.spec(x.Args[0], env)
			if err != nil || b.T == nil || b.T.Name != "Int" || b.T.Elem == nil {
				tr.errorf("%s: modifies %s: bad target (%v)", tr.key, m.Src, err)
				return
			}
			name := "H_" + b.T.Elem.Tag()
			tr.touchHeap(name, b.T.Elem, false)
			*out = append(*out, modTarget{heap: name, obj: b.S})
			return
		}
		tr.errorf("%s: modifies %s: unsupported", tr.key, m.Src)
	case EIdent:
		b, err := tr.spec(x, env)
		if err != nil || b.T == nil || b.T.Elem == nil {
			tr.errorf("%s: modifies %s: bad target (%v)", tr.key, m.Src, err)
			return
		}
		if b.T.Name == "Slice" {
			name := "A_" + b.T.Elem.Tag()
			tr.touchHeap(name, b.T.Elem, true)
			*out = append(*out, modTarget{heap: name, obj: slArr(b.S)})
			return
		}
		name := "H_" + b.T.Elem.Tag()
		tr.touchHeap(name, b.T.Elem, false)
		*out = append(*out, modTarget{heap: name, obj: b.S})
	default:
		tr.errorf("%s: modifies %s: unsupported", tr.key, m.Src)
	}
}

// frame formula: every object of map `name` allocated before `allocBefore`
// and not named by targets keeps its contents between versions h0 and h1.
func (tr *fnTrans) frameFormula(name string, h0, h1, allocBefore string, targets []modTarget) string {
	hi := tr.maps[name]
	var whole []string                 // objects fully modifiable
	fieldMods := map[string][]string{} // obj -> fields
	var fobjs []string
	for _, t := range targets {
		if t.heap != name {
			continue
		}
		if t.field == "" {
			whole = append(whole, t.obj)
		} else {
			if _, ok := fieldMods[t.obj]; !ok {
				fobjs = append(fobjs, t.obj)
			}
			fieldMods[t.obj] = append(fieldMods[t.obj], t.field)
		}
	}
	conds := []string{app("<=", "0", "o!f"), app("<", "o!f", allocBefore)}
	for _, w := range whole {
		conds = append(conds, not(app("=", "o!f", w)))
	}
	for _, w := range fobjs {
		conds = append(conds, not(app("=", "o!f", w)))
	}
	f := fmt.Sprintf("(forall ((o!f Int)) (! (=> %s (= (select %s o!f) (select %s o!f))) :pattern ((select %s o!f))))", and(conds...), h1, h0, h1)
	parts := []string{f}
	// partially modifiable objects: all other fields unchanged
	for _, o := range fobjs {
		skip := false
		for _, w := range whole {
			if w == o {
				skip = true
			}
		}
		if skip || hi.isArr {
			continue
		}
		mod := map[string]bool{}
		for _, fn := range fieldMods[o] {
			mod[fn] = true
		}
		for _, fd := range hi.elem.Fields {
			if mod[fd.Name] {
				continue
			}
			sl := fieldSel(hi.elem, fd.Name)
			parts = append(parts, app("=", app(sl, sel(h1, o)), app(sl, sel(h0, o))))
		}
	}
	return and(parts...)
}

// preludeHeaps registers the heap maps that the prelude modules in use mention (as NAME!0 or AH_/CH_ sorts)
func (tr *fnTrans) preludeHeaps(uses []string) {
	mods, err := tr.v.prelude.closure(append([]string{"core"}, uses...))
	if err != nil {
		tr.errorf("%v", err)
		return
	}
	for _, mn := range mods {
		for _, w := range strings.FieldsFunc(tr.v.prelude.Mods[mn].Text, func(r rune) bool { return r == ' ' || r == '(' || r == ')' || r == '\n' || r == '\t' }) {
			name := ""
			switch {
			case (strings.HasPrefix(w, "A_") || strings.HasPrefix(w, "H_")) && strings.HasSuffix(w, "!0"):
				name = strings.TrimSuffix(w, "!0")
			case strings.HasPrefix(w, "AH_"):
				name = "A_" + w[3:]
			case strings.HasPrefix(w, "CH_"):
				name = "H_" + w[3:]
			}
			if name == "" {
				continue
			}
			if es, err := tr.sortByName(name[2:]); err == nil {
				tr.touchHeap(name, es, name[0] == 'A')
			}
		}
	}
}

// ancestors: the blocks from which b can be reached without taking a back edge (b included).  Hypotheses
// produced by other blocks are guarded by reachability conditions that exclude b's, so they are left out of
// b's obligations (fewer, never more, hypotheses).
func (tr *fnTrans) ancestors(b *ssa.BasicBlock) map[int]bool {
	if tr.ancCache == nil {
		tr.ancCache = map[*ssa.BasicBlock]map[int]bool{}
	}
	if m, ok := tr.ancCache[b]; ok {
		return m
	}
	m := map[int]bool{}
	stack := []*ssa.BasicBlock{b}
	for len(stack) > 0 {
		x := stack[len(stack)-1]
		stack = stack[:len(stack)-1]
		if m[x.Index] {
			continue
		}
		m[x.Index] = true
		for _, p := range x.Preds {
			if !tr.backEdge[[2]int{p.Index, x.Index}] {
				stack = append(stack, p)
			}
		}
	}
	tr.ancCache[b] = m
	return m
}

// typedMapFacts: the ghost set T_<S> of objects allocated with struct type S only contains allocated ids
func (tr *fnTrans) typedMapFacts(alloc string) {
	for _, m := range tr.mapOrder {
		if strings.HasPrefix(m, "T_") {
			h := tr.curHeap(m)
			tr.hyp(fmt.Sprintf("(forall ((o!t Int)) (! (=> (select %s o!t) (and (< 0 o!t) (< o!t %s))) :pattern ((select %s o!t))))", h, alloc, h))
		}
	}
}

// touchedByMods: cells of map `name` that a step framed by (allocBefore, targets) may change
func (tr *fnTrans) touchedByMods(allocBefore, name string, targets []modTarget) string {
	cs := []string{app("<", "(sarr s!s)", "0"), app(">=", "(sarr s!s)", allocBefore)}
	for _, t := range targets {
		if t.heap == name {
			cs = append(cs, app("=", "(sarr s!s)", t.obj))
		}
	}
	return or(cs...)
}

// ---------- CFG ----------

func (tr *fnTrans) findLoops() {
	fn := tr.fn
	for _, b := range fn.Blocks {
		for _, s := range b.Succs {
			if s.Dominates(b) {
				tr.backEdge[[2]int{b.Index, s.Index}] = true
				li := tr.loops[s]
				if li == nil {
					li = &loopInfo{header: s, blocks: map[*ssa.BasicBlock]bool{s: true}}
					tr.loops[s] = li
				}
				// natural loop body
				stack := []*ssa.BasicBlock{b}
				for len(stack) > 0 {
					x := stack[len(stack)-1]
					stack = stack[:len(stack)-1]
					if li.blocks[x] {
						continue
					}
					li.blocks[x] = true
					stack = append(stack, x.Preds...)
				}
			}
		}
	}
	// ordinals by source position of the header's first positioned instruction
	var hs []*loopInfo
	for _, li := range tr.loops {
		hs = append(hs, li)
	}
	sort.Slice(hs, func(i, j int) bool {
		pi, pj := loopPos(hs[i]), loopPos(hs[j])
		if pi != pj {
			return pi < pj
		}
		if len(hs[i].blocks) != len(hs[j].blocks) {
			return len(hs[i].blocks) > len(hs[j].blocks) // an enclosing loop comes before the loops it contains
		}
		return hs[i].header.Index < hs[j].header.Index
	})
	for i, li := range hs {
		li.ord = i
		li.spec = tr.c.Loops[i]
	}
}

func loopPos(li *loopInfo) token.Pos {
	best := token.Pos(1 << 40)
	for b := range li.blocks {
		for _, in := range b.Instrs {
			if p := in.Pos(); p.IsValid() && p < best {
				best = p
			}
			if d, ok := in.(*ssa.DebugRef); ok && d.Expr != nil && d.Expr.Pos() < best {
				best = d.Expr.Pos()
			}
		}
	}
	return best
}

func (tr *fnTrans) topoOrder() []*ssa.BasicBlock {
	var order []*ssa.BasicBlock
	seen := map[*ssa.BasicBlock]bool{}
	var visit func(b *ssa.BasicBlock)
	visit = func(b *ssa.BasicBlock) {
		seen[b] = true
		for _, s := range b.Succs {
			if tr.backEdge[[2]int{b.Index, s.Index}] || seen[s] {
				continue
			}
			visit(s)
		}
		order = append(order, b)
	}
	visit(tr.fn.Blocks[0])
	for i, j := 0, len(order)-1; i < j; i, j = i+1, j-1 {
		order[i], order[j] = order[j], order[i]
	}
	return order
}

func (tr *fnTrans) block(b *ssa.BasicBlock) {
	tr.cur = nil
	// reachability and incoming state
	type inc struct {
		p    *ssa.BasicBlock
		cond string
	}
	var incs []inc
	for _, p := range b.Preds {
		if tr.backEdge[[2]int{p.Index, b.Index}] {
			continue
		}
		if _, done := tr.inB[p]; !done {
			continue // unreachable predecessor
		}
		incs = append(incs, inc{p, tr.edge[[2]int{p.Index, b.Index}]})
	}
	inName := fmt.Sprintf("in_%d", b.Index)
	if b.Index == 0 {
		tr.define(inName, SBool, "true")
	} else {
		var cs []string
		for _, i := range incs {
			cs = append(cs, i.cond)
		}
		tr.define(inName, SBool, or(cs...))
	}
	tr.inB[b] = inName
	// merge heaps
	tr.heap = map[string]string{}
	if len(incs) == 1 {
		for k, v := range tr.outHeap[incs[0].p] {
			tr.heap[k] = v
		}
		tr.alloc = tr.outAlloc[incs[0].p]
	} else if len(incs) > 1 {
		for _, name := range tr.mapOrder {
			same := true
			first := tr.heapOf(incs[0].p, name)
			for _, i := range incs[1:] {
				if tr.heapOf(i.p, name) != first {
					same = false
				}
			}
			if same {
				tr.heap[name] = first
				continue
			}
			term := tr.heapOf(incs[len(incs)-1].p, name)
			for k := len(incs) - 2; k >= 0; k-- {
				term = ite(incs[k].cond, tr.heapOf(incs[k].p, name), term)
			}
			n := tr.fresh(name)
			tr.decl(fmt.Sprintf("(declare-const %s %s)", n, heapSortName(tr.maps[name])))
			tr.items = append(tr.items, item{text: fmt.Sprintf("(assert (= %s %s))", n, term), isHyp: false})
			tr.heap[name] = n
			if hi := tr.maps[name]; hi.isArr {
				at := "at_" + hi.elem.Tag()
				mt := app(at, tr.heapOf(incs[len(incs)-1].p, name), "s!s", "k!s")
				for k := len(incs) - 2; k >= 0; k-- {
					mt = ite(incs[k].cond, app(at, tr.heapOf(incs[k].p, name), "s!s", "k!s"), mt)
				}
				tr.hyp(fmt.Sprintf("(forall ((s!s Slice) (k!s Int)) (! (= (%s %s s!s k!s) %s) :pattern ((%s %s s!s k!s))))", at, n, mt, at, n))
			}
		}
		term := tr.outAlloc[incs[len(incs)-1].p]
		same := true
		for _, i := range incs {
			if tr.outAlloc[i.p] != term {
				same = false
			}
		}
		if !same {
			for k := len(incs) - 2; k >= 0; k-- {
				term = ite(incs[k].cond, tr.outAlloc[incs[k].p], term)
			}
			term = tr.define(tr.fresh("alloc"), SInt, term)
		}
		tr.alloc = term
	}
	li := tr.loops[b]
	if li != nil {
		// establish the invariant on every entry edge
		for _, i := range incs {
			tr.checkInvariant(li, i.p, b, i.cond, "init")
		}
		tr.havocLoop(li, b)
	} else {
		for _, in := range b.Instrs {
			phi, ok := in.(*ssa.Phi)
			if !ok {
				break
			}
			s := tr.sortOfV(phi)
			var term string
			var ps []Term
			for _, i := range incs {
				idx := predIndex(b, i.p)
				ps = append(ps, tr.val(phi.Edges[idx]))
			}
			if len(ps) == 0 {
				term = zeroOf(s)
			} else {
				last := ps[len(ps)-1]
				if last.T == nil {
					last = T(tr.nilOf(s), s)
				}
				term = last.S
				for k := len(ps) - 2; k >= 0; k-- {
					pk := ps[k]
					if pk.T == nil {
						pk = T(tr.nilOf(s), s)
					}
					term = ite(incs[k].cond, pk.S, term)
				}
			}
			name := tr.vname(phi)
			tr.define(name, s, term)
			tr.vals[phi] = T(name, s)
		}
	}
	tr.cur = b
	for _, in := range b.Instrs {
		if _, ok := in.(*ssa.Phi); ok {
			continue
		}
		tr.instr(b, in)
	}
	tr.outHeap[b] = tr.heap
	tr.outAlloc[b] = tr.alloc
	// back edges leaving this block: invariant preserved
	for _, s := range b.Succs {
		if tr.backEdge[[2]int{b.Index, s.Index}] {
			tr.cur = nil
			tr.checkInvariant(tr.loops[s], b, s, tr.edge[[2]int{b.Index, s.Index}], "keep")
		}
	}
}

func (tr *fnTrans) heapOf(b *ssa.BasicBlock, name string) string {
	if t, ok := tr.outHeap[b][name]; ok {
		return t
	}
	return tr.heapEntry(name)
}

func predIndex(b, p *ssa.BasicBlock) int {
	for i, q := range b.Preds {
		if q == p {
			return i
		}
	}
	return -1
}

func (tr *fnTrans) vname(v ssa.Value) string { return "v_" + v.Name() }

// names visible to an invariant of loop li: header phis by source name, then
// values of dominating definitions.
func (tr *fnTrans) loopEnv(li *loopInfo, phiVal func(*ssa.Phi) Term, heap map[string]string, alloc string) *specEnv {
	e := &specEnv{tr: tr, vars: map[string]Term{}, heap: heap, oldHeap: map[string]string{}, alloc: alloc, alloc0: "alloc0"}
	for k, v := range tr.params {
		e.vars[k] = v
	}
	// dominating definitions by DebugRef
	h := li.header
	type cand struct {
		v     ssa.Value
		depth int
		idx   int
	}
	best := map[string]cand{}
	for _, b := range tr.fn.Blocks {
		if !(b.Dominates(h)) || (b == h && !li.inclSelf) {
			continue
		}
		depth := domDepth(b)
		for idx, in := range b.Instrs {
			var name string
			var val ssa.Value
			switch in := in.(type) {
			case *ssa.DebugRef:
				if in.IsAddr {
					continue
				}
				if id, ok := in.Expr.(interface{ String() string }); ok {
					_ = id
				}
				if o := in.Object(); o != nil {
					if _, isVar := o.(*types.Var); isVar {
						name, val = o.Name(), in.X
					}
				}
			case *ssa.Phi:
				name, val = in.Comment, in
			case *ssa.Alloc:
				// address-taken local: its cell is visible to invariants as addrof_<name>
				if in.Comment != "" && in.Comment != "varargs" && in.Comment != "makeslice" && in.Comment != "complit" {
					name, val = "addrof_"+in.Comment, in
				}
			}
			if name == "" || val == nil {
				continue
			}
			if _, ok := tr.vals[val]; !ok {
				if _, isC := val.(*ssa.Const); !isC {
					continue
				}
			}
			c := cand{val, depth, idx}
			if o, ok := best[name]; !ok || c.depth > o.depth || (c.depth == o.depth && c.idx > o.idx) {
				best[name] = c
			}
		}
	}
	for n, c := range best {
		if n == "rangeindex" {
			n = "#outer" // completed iterations - 1 of the nearest enclosing range loop
		}
		e.vars[n] = tr.val(c.v)
	}
	for _, in := range h.Instrs {
		phi, ok := in.(*ssa.Phi)
		if !ok {
			break
		}
		if phi.Comment != "" {
			name := phi.Comment
			if name == "rangeindex" {
				name = "#k"
			}
			e.vars[name] = phiVal(phi)
		}
	}
	tr.rebindRenamed(li, h, e)
	if _, has := e.vars["#outer"]; !has {
		// nearest enclosing range loop over a string: inside its body the iterator has already advanced past the current
		// character, so the index of the current character is counter-1 and "#outer" (current index - 1) is counter-2
		bestDepth := -1
		for _, b := range tr.fn.Blocks {
			if b == h || !b.Dominates(h) {
				continue
			}
			for _, in := range b.Instrs {
				if nx, ok := in.(*ssa.Next); ok && nx.IsString {
					if id, ok := tr.iterId[nx.Iter]; ok {
						if hn, ok := heap["H_Iter"]; ok && domDepth(b) > bestDepth {
							bestDepth = domDepth(b)
							e.vars["#outer"] = T(fmt.Sprintf("(- %s 2)", sel(hn, id)), SInt)
						}
					}
				}
			}
		}
	}
	if _, has := e.vars["#k"]; !has {
		// a range loop over a string: completed iterations - 1, read from the iterator's ghost counter
		for _, in := range h.Instrs {
			if nx, ok := in.(*ssa.Next); ok && nx.IsString {
				if id, ok := tr.iterId[nx.Iter]; ok {
					if hn, ok := heap["H_Iter"]; ok {
						e.vars["#k"] = T(fmt.Sprintf("(- %s 1)", sel(hn, id)), SInt)
					}
				}
			}
		}
	}
	return e
}

func domDepth(b *ssa.BasicBlock) int {
	d := 0
	for x := b.Idom(); x != nil; x = x.Idom() {
		d++
	}
	return d
}

// loop-modified heap maps
func (tr *fnTrans) loopMods(li *loopInfo) (maps []string, allocs bool) {
	set := map[string]bool{}
	for b := range li.blocks {
		src := tr.bumps
		if src == nil {
			src = tr.curBumps
		}
		for m := range src[b] {
			set[m] = true
		}
	}
	if set["*"] {
		for _, m := range tr.mapOrder {
			set[m] = true
		}
	}
	allocs = set["alloc"] || set["*"]
	for _, m := range tr.mapOrder {
		if set[m] {
			maps = append(maps, m)
		}
	}
	return
}

func (tr *fnTrans) checkInvariant(li *loopInfo, from, header *ssa.BasicBlock, cond string, phase string) {
	// several edges into the header (continue statements, if/else arms): number them
	tr.counters[fmt.Sprintf("inv%d.%s", li.ord, phase)]++
	if n := tr.counters[fmt.Sprintf("inv%d.%s", li.ord, phase)]; n > 1 {
		phase = fmt.Sprintf("%s#%d", phase, n)
	}
	idx := predIndex(header, from)
	heap := tr.outHeap[from]
	if heap == nil {
		heap = tr.heap
	}
	alloc := tr.outAlloc[from]
	if alloc == "" {
		alloc = tr.alloc
	}
	env := tr.loopEnv(li, func(p *ssa.Phi) Term {
		t := tr.val(p.Edges[idx])
		if t.T == nil {
			s := tr.sortOfV(p)
			t = T(tr.nilOf(s), s)
		}
		return t
	}, heap, alloc)
	save := tr.cur
	tr.cur = nil
	tr.oblFrom = from
	defer func() { tr.cur = save; tr.oblFrom = nil }()
	if li.spec != nil {
		for i, inv := range li.spec.Invs {
			// preservation of a quantified invariant of a range loop is proved in two parts: the indices already
			// covered at the loop head, and the new one (solvers do not find this case split by themselves)
			if q, ok := inv.E.(EQuant); ok && q.Forall && strings.HasPrefix(phase, "keep") && li.env != nil {
				if imp, ok := q.Body.(EBin); ok && imp.Op == "==>" && len(q.Vars) > 0 && q.Vars[0].Sort == "Int" {
					if k0, ok := li.env.vars["#k"]; ok {
						env.vars["#k0"] = k0
						v := EIdent{q.Vars[0].Name}
						parts := []struct {
							tag  string
							cond Expr
						}{{"old", EBin{"<=", v, EIdent{"#k0"}}}, {"new", EBin{">", v, EIdent{"#k0"}}}}
						okAll := true
						for _, pt := range parts {
							q2 := EQuant{Forall: true, Vars: q.Vars, Pats: q.Pats, Body: EBin{"==>", EBin{"&&", imp.L, pt.cond}, imp.R}}
							t, err := tr.spec(q2, env)
							if err != nil {
								okAll = false
								break
							}
							tr.oblige("inv", fmt.Sprintf("inv[%d].%s[%s].%s", li.ord, phase, labelOr(inv.Label, i), pt.tag), implies(cond, t.S), inv.Src, token.NoPos)
						}
						if okAll {
							continue
						}
					}
				}
			}
			t, err := tr.spec(inv.E, env)
			if err != nil {
				tr.errorf("%s: loop %d invariant %s: %v", tr.key, li.ord, inv.Src, err)
				continue
			}
			o := tr.oblige("inv", fmt.Sprintf("inv[%d].%s[%s]", li.ord, phase, labelOr(inv.Label, i)), implies(cond, t.S), inv.Src, token.NoPos)
			_ = o
		}
	}
	// frame auto-invariant
	maps, _ := tr.loopMods(li)
	for _, m := range maps {
		f := tr.frameFormula(m, tr.heapEntry(m), tr.heapIn(heap, m), "alloc0", tr.modTerms)
		tr.oblige("frame", fmt.Sprintf("inv[%d].%s[frame:%s]", li.ord, phase, m), implies(cond, f), "", token.NoPos)
	}
	if strings.HasPrefix(phase, "keep") && li.spec != nil && li.spec.Dec != nil && li.env != nil {
		d1, err1 := tr.spec(li.spec.Dec.E, env)
		d0, err0 := tr.spec(li.spec.Dec.E, li.env)
		if err1 != nil || err0 != nil {
			tr.errorf("%s: loop %d decreases: %v %v", tr.key, li.ord, err0, err1)
		} else {
			tr.oblige("dec", fmt.Sprintf("dec[%d].%s", li.ord, phase), implies(cond, and(app("<=", "0", d0.S), app("<", d1.S, d0.S))), li.spec.Dec.Src, token.NoPos)
		}
	}
}

func (tr *fnTrans) heapIn(h map[string]string, name string) string {
	if t, ok := h[name]; ok {
		return t
	}
	return tr.heapEntry(name)
}

func (tr *fnTrans) havocLoop(li *loopInfo, b *ssa.BasicBlock) {
	if li.spec == nil && !tr.dry {
		tr.errorf("%s: loop %d has no invariant block in the contract", tr.key, li.ord)
	}
	maps, allocs := tr.loopMods(li)
	allocPre := tr.alloc
	for _, m := range maps {
		n := tr.fresh(m)
		tr.decl(fmt.Sprintf("(declare-const %s %s)", n, heapSortName(tr.maps[m])))
		tr.heap[m] = n
	}
	if allocs {
		n := tr.declare(tr.fresh("alloc"), SInt)
		tr.hyp(app("<=", allocPre, n))
		tr.alloc = n
	}
	for _, in := range b.Instrs {
		phi, ok := in.(*ssa.Phi)
		if !ok {
			break
		}
		s := tr.sortOfV(phi)
		name := tr.vname(phi)
		tr.declare(name, s)
		t := T(name, s)
		tr.vals[phi] = t
		tr.hyp(implies(tr.inB[b], tr.wf(t, tr.alloc)))
	}
	env := tr.loopEnv(li, func(p *ssa.Phi) Term { return tr.vals[p] }, tr.heap, tr.alloc)
	// keep a private copy of the heap view
	hc := map[string]string{}
	for k, v := range tr.heap {
		hc[k] = v
	}
	env.heap = hc
	li.env = env
	if li.spec != nil {
		for _, inv := range li.spec.Invs {
			t, err := tr.spec(inv.E, env)
			if err != nil {
				tr.errorf("%s: loop %d invariant %s: %v", tr.key, li.ord, inv.Src, err)
				continue
			}
			tr.hyp(implies(tr.inB[b], t.S))
		}
	}
	tr.typedMapFacts(tr.alloc)
	for _, m := range maps {
		tr.hyp(tr.frameFormula(m, tr.heapEntry(m), tr.heap[m], "alloc0", tr.modTerms))
		tr.atStep(m, tr.heapEntry(m), tr.heap[m], tr.touchedByMods("alloc0", m, tr.modTerms), tr.touchedByMods("alloc0", m, tr.modTerms))
	}
	save := tr.cur
	tr.cur = b
	cov := tr.oblige("cover", fmt.Sprintf("cover[loop%d]", li.ord), "false", "", token.NoPos)
	cov.Cover = true
	tr.cur = save
}

// checkPure: a contract marked `pure` promises no heap effect at all (callers keep their heap);
// the body may therefore not store, allocate, append, copy or call anything that is not pure.
func (tr *fnTrans) checkPure() {
	// observational purity: nothing that existed before the call is modified (the frame obligations with an
	// empty modifies clause prove it) and the results cannot refer to memory (scalars and strings only), so
	// whatever the body allocates is unreachable for the caller.
	if len(tr.c.Modifies) == 0 {
		scalar := true
		res := tr.fn.Signature.Results()
		for i := 0; i < res.Len(); i++ {
			s, err := tr.v.sortOf(res.At(i).Type())
			if err != nil || s == nil || !(s == SInt || s == SBool || s == SF64 || s == SStr) {
				scalar = false
			}
		}
		if scalar {
			return
		}
	}
	for _, b := range tr.fn.Blocks {
		for _, in := range b.Instrs {
			switch in := in.(type) {
			case *ssa.Store, *ssa.MapUpdate, *ssa.MakeSlice, *ssa.MakeMap, *ssa.MakeClosure, *ssa.Go, *ssa.Defer, *ssa.Send:
				tr.errorf("%s is declared pure but contains %T", tr.key, in)
			case *ssa.Alloc:
				tr.errorf("%s is declared pure but allocates", tr.key)
			case *ssa.Call:
				cm := in.Common()
				if bi, ok := cm.Value.(*ssa.Builtin); ok {
					if bi.Name() != "len" && bi.Name() != "cap" {
						tr.errorf("%s is declared pure but calls builtin %s", tr.key, bi.Name())
					}
					continue
				}
				var c *Contract
				if cm.IsInvoke() {
					c = tr.v.contracts[shortType(cm.Value.Type())+"."+cm.Method.Name()]
				} else if f, ok := cm.Value.(*ssa.Function); ok {
					c = tr.v.contracts[fnKey(f)]
				}
				if c == nil || !c.Pure {
					tr.errorf("%s is declared pure but calls a function that is not", tr.key)
				}
			}
		}
	}
}

// callCycle returns a description of a static call cycle among the functions of fn's package reachable from fn
// (fn included), or "".
func callCycle(fn *ssa.Function) string {
	state := map[*ssa.Function]int{} // 1 = on stack, 2 = done
	var found string
	var dfs func(f *ssa.Function) bool
	dfs = func(f *ssa.Function) bool {
		state[f] = 1
		for _, b := range f.Blocks {
			for _, in := range b.Instrs {
				call, ok := in.(ssa.CallInstruction)
				if !ok {
					continue
				}
				var callees []*ssa.Function
				if callee := call.Common().StaticCallee(); callee != nil {
					callees = append(callees, callee)
				} else if call.Common().IsInvoke() && fn.Pkg != nil {
					// a call through an interface can reach every method of that name declared in the same package
					// (an adaptor type wrapped around the caller's argument, for instance)
					name := call.Common().Method.Name()
					for _, mem := range fn.Pkg.Members {
						tp, ok := mem.(*ssa.Type)
						if !ok {
							continue
						}
						for _, t := range []types.Type{tp.Type(), types.NewPointer(tp.Type())} {
							ms := fn.Prog.MethodSets.MethodSet(t)
							for i := 0; i < ms.Len(); i++ {
								if ms.At(i).Obj().Name() == name {
									if m := fn.Prog.MethodValue(ms.At(i)); m != nil {
										callees = append(callees, m)
									}
								}
							}
						}
					}
				}
				for _, callee := range callees {
					if callee.Pkg != fn.Pkg {
						continue
					}
					if state[callee] == 1 {
						found = fnKey(f) + " -> " + fnKey(callee)
						return true
					}
					if state[callee] == 0 && dfs(callee) {
						return true
					}
				}
			}
		}
		state[f] = 2
		return false
	}
	if dfs(fn) {
		return found
	}
	return ""
}

// specIdents collects the free identifiers of a specification expression.
func specIdents(x Expr, bound map[string]bool, out map[string]bool) {
	switch x := x.(type) {
	case EIdent:
		if !bound[x.Name] {
			out[x.Name] = true
		}
	case EBin:
		specIdents(x.L, bound, out)
		specIdents(x.R, bound, out)
	case EUn:
		specIdents(x.X, bound, out)
	case ECall:
		for _, a := range x.Args {
			specIdents(a, bound, out)
		}
	case EIndex:
		specIdents(x.X, bound, out)
		specIdents(x.I, bound, out)
	case EField:
		specIdents(x.X, bound, out)
	case EOld:
		specIdents(x.X, bound, out)
	case EIte:
		specIdents(x.C, bound, out)
		specIdents(x.A, bound, out)
		specIdents(x.B, bound, out)
	case ELet:
		specIdents(x.Val, bound, out)
		b2 := map[string]bool{x.Name: true}
		for k := range bound {
			b2[k] = true
		}
		specIdents(x.Body, b2, out)
	case EQuant:
		b2 := map[string]bool{}
		for k := range bound {
			b2[k] = true
		}
		for _, v := range x.Vars {
			b2[v.Name] = true
		}
		for _, ps := range x.Pats {
			for _, p := range ps {
				specIdents(p, b2, out)
			}
		}
		specIdents(x.Body, b2, out)
	}
}

// rebindRenamed: a loop invariant names loop-carried locals by their source names.  When exactly one name used by the
// invariants of a loop is unknown and exactly one loop-carried local of that loop is mentioned by none of them, the
// local was renamed in the source: the unknown name is bound to it.  This cannot make a wrong program verify - an
// invariant is only a proof artifact, and whatever formula results must still be established and preserved - it only
// keeps a rename from turning into a contract error.
func (tr *fnTrans) rebindRenamed(li *loopInfo, h *ssa.BasicBlock, e *specEnv) {
	if li == nil || li.spec == nil || h == nil {
		return
	}
	used := map[string]bool{}
	for _, inv := range li.spec.Invs {
		specIdents(inv.E, map[string]bool{}, used)
	}
	if li.spec.Dec != nil {
		specIdents(li.spec.Dec.E, map[string]bool{}, used)
	}
	var unknown []string
	for n := range used {
		if _, ok := e.vars[n]; ok {
			continue
		}
		if sig, ok := tr.v.prelude.Sigs[n]; ok && len(sig.Args) == 0 {
			continue
		}
		if strings.HasPrefix(n, "#") || strings.HasPrefix(n, "NT_") || strings.HasPrefix(n, "addrof_") {
			continue
		}
		unknown = append(unknown, n)
	}
	if len(unknown) != 1 {
		return
	}
	var unusedPhis []string
	for _, in := range h.Instrs {
		phi, ok := in.(*ssa.Phi)
		if !ok {
			break
		}
		if phi.Comment == "" || phi.Comment == "rangeindex" || used[phi.Comment] {
			continue
		}
		if _, ok := e.vars[phi.Comment]; ok {
			unusedPhis = append(unusedPhis, phi.Comment)
		}
	}
	if len(unusedPhis) != 1 {
		return
	}
	e.vars[unknown[0]] = e.vars[unusedPhis[0]]
	msg := fmt.Sprintf("%s: loop %d: invariant name %q is bound to the loop-carried local %q (renamed in the source?)", tr.key, li.ord, unknown[0], unusedPhis[0])
	for _, w := range tr.warns {
		if w == msg {
			return
		}
	}
	tr.warns = append(tr.warns, msg)
}
