package main

import (
	"fmt"
	"go/token"
	"go/types"
	"sort"
	"strings"

	"golang.org/x/tools/go/ssa"
)

// dispatchObligations: for every entry (NT_K -> handler) of the registry built by package exec's
// initialiser, the handler's own contract must entail the generic handler contract `call.exec.contextFn`
// (used at the dynamic call in execContext) for parse nodes of nonterminal K.  Each entry is verified as if
// it were a function whose body is `return handler(context, expr)`.
// Structural obligations: a nonterminal WITHOUT a handler must be a chain production in the generated slot
// table (exactly one nonterminal symbol, or none), because Sem treats it as transparent.
func (v *verifier) dispatchObligations() ([]*Obligation, []string) {
	var out []*Obligation
	var errs []string
	g := v.contracts["call.exec.contextFn"]
	if g == nil {
		return nil, nil
	}
	t := v.tabs
	errs = append(errs, t.errs...)
	var ks []int64
	for k := range t.handlers {
		ks = append(ks, k)
	}
	sort.Slice(ks, func(i, j int) bool { return ks[i] < ks[j] })
	old := v.curPkg
	v.curPkg = xselPath + "/exec"
	defer func() { v.curPkg = old }()
	for _, k := range ks {
		h := t.handlers[k]
		hkey := fnKey(h)
		hc := v.contracts[hkey]
		name := fmt.Sprintf("dispatch[%s]", t.ntNames[k])
		if hc == nil {
			out = append(out, &Obligation{Name: "exec.execContext/" + name, Fn: "exec.execContext", Kind: "dispatch", Goal: "false",
				Src: fmt.Sprintf("handler %s registered for %s has no contract", hkey, t.ntNames[k]), Props: []string{"C08"}, tr: emptyTrans(v)})
			continue
		}
		for pass := 0; pass < 2; pass++ {
			var pre *fnTrans
			if pass == 1 {
				pre = out0
			}
			tr := newFnTrans(v, nil, g, pre)
			tr.key = "exec.execContext"
			tr.dry = pass == 0
			for _, u := range g.Uses {
				tr.uses[u] = true
			}
			tr.uses["gentables"] = true
			tr.preludeHeaps(append(append([]string{}, g.Uses...), hc.Uses...))
			for _, n := range tr.preMaps {
				tr.touchHeap(n, tr.preInfo[n].elem, tr.preInfo[n].isArr)
			}
			tr.alloc = "alloc0"
			sig := h.Signature
			// parameters: fn, context, expr
			fnc := "fn_" + sanitize(hkey)
			tr.params[g.Params[0]] = T(fnc, SFn)
			var args []Term
			for i := 0; i < sig.Params().Len(); i++ {
				s, err := v.sortOf(sig.Params().At(i).Type())
				if err != nil {
					tr.errorf("%v", err)
					continue
				}
				pn := "p_" + g.Params[i+1]
				tr.declare(pn, s)
				tm := T(pn, s)
				tr.params[g.Params[i+1]] = tm
				tr.hyp(tr.wf(tm, "alloc0"))
				args = append(args, tm)
			}
			tr.entryEnv = tr.env()
			for _, m := range g.Modifies {
				tr.modTargets(m, tr.entryEnv, &tr.modTerms)
			}
			for _, r := range g.Requires {
				tm, err := tr.spec(r.E, tr.entryEnv)
				if err != nil {
					tr.errorf("dispatch: %v", err)
					continue
				}
				tr.hyp(tm.S)
			}
			// this entry: the function value is the one registered for K, so nt(B) = K
			tr.hyp(fmt.Sprintf("(forall ((k!d Int)) (=> (= (handlerFn k!d) %s) (or %s)))", fnc, strings.Join(keysOf(t, hkey), " ")))
			ntTerm, err := tr.spec(ECall{"nt", []Expr{ECall{"deref", []Expr{EField{EIdent{g.Params[2]}, "BSR"}}}}}, tr.entryEnv)
			if err == nil {
				tr.hyp(app("=", ntTerm.S, intLit(k)))
			} else {
				tr.errorf("dispatch: %v", err)
			}
			cov := tr.oblige("cover", name+".cover", "false", "", token.NoPos)
			cov.Cover = true
			rts := tr.applyContractSig(hc, hkey, args, sig, "v_call", token.NoPos, func() {})
			env := tr.env()
			env.oldHeap = map[string]string{}
			for i, n := range g.Results {
				if i < len(rts) {
					env.vars[n] = rts[i]
				}
			}
			for i, e := range g.Ensures {
				tm, err := tr.spec(e.E, env)
				if err != nil {
					tr.errorf("dispatch: %v", err)
					continue
				}
				tr.oblige("dispatch", fmt.Sprintf("%s.post[%s]", name, labelOr(e.Label, i)), tm.S, fmt.Sprintf("contract of %s entails the handler contract for %s", hkey, t.ntNames[k]), token.NoPos)
			}
			for _, m := range tr.mapOrder {
				hcur := tr.curHeap(m)
				if hcur == tr.heapEntry(m) {
					continue
				}
				tr.oblige("frame", fmt.Sprintf("%s.frame[%s]", name, m), tr.frameFormula(m, tr.heapEntry(m), hcur, "alloc0", tr.modTerms), "", token.NoPos)
			}
			out0 = tr
		}
		for _, e := range out0.errs {
			errs = append(errs, "dispatch["+t.ntNames[k]+"]: "+e)
		}
		// rename the pre-obligations so that they are attributed to the dispatch entry
		for _, o := range out0.obls {
			o.Props = append(append([]string{}, hc.Props...), "C08")
			if !strings.Contains(o.Name, "dispatch[") {
				o.Name = "exec.execContext/" + name + "." + strings.TrimPrefix(o.Name, "exec.execContext/")
			}
			o.Kind = "dispatch"
		}
		out = append(out, out0.obls...)
	}
	// structural: nonterminals without a handler are chain productions
	byNT := map[int64][]slotInfo{}
	for _, si := range t.slots {
		if int(si.Pos) == len(si.Symbols) {
			byNT[si.NT] = append(byNT[si.NT], si)
		}
	}
	var nts []int64
	for k := range byNT {
		nts = append(nts, k)
	}
	sort.Slice(nts, func(i, j int) bool { return nts[i] < nts[j] })
	for _, k := range nts {
		if _, has := t.handlers[k]; has {
			continue
		}
		ok := true
		why := ""
		// nonterminals that never reach execContext: their text or children are consumed by the handler of the parent
		consumed := map[string]bool{"NT_NodeType": true, "NT_ReservedNameConflictResolver": true, "NT_QNameLocalOnly": true, "NT_QNameNamespaceWithLocal": true,
			"NT_QName": true, "NT_FunctionSignatureNoArgs": true, "NT_FunctionCallArgumentListArgWithNext": true, "NT_FunctionCallArgumentListEndArg": true,
			"NT_FunctionCallArgumentList": true, "NT_FunctionSignature": true}
		transparentT := map[string]bool{"(": true, ")": true, "::": true}
		for _, si := range byNT[k] {
			if consumed[t.ntNames[k]] {
				continue
			}
			var lits []string
			for _, sy := range si.Symbols {
				if !sy.IsNT {
					lits = append(lits, t.tLit[sy.Val])
				}
			}
			switch {
			case si.ntCount() > 1:
				ok = false
				why = fmt.Sprintf("alternate %d of %s has %d nonterminal children and no handler: the evaluator silently evaluates only the first", si.Alt, t.ntNames[k], si.ntCount())
			case si.ntCount() == 1:
				for _, l := range lits {
					if !transparentT[l] {
						ok = false
						why = fmt.Sprintf("alternate %d of %s contains the terminal %q next to its nonterminal child and has no handler: the terminal is ignored", si.Alt, t.ntNames[k], l)
					}
				}
			default:
				if !(len(lits) == 1 && lits[0] == ".") {
					ok = false
					why = fmt.Sprintf("alternate %d of %s consists of terminals %q only and has no handler: it evaluates to the unchanged context", si.Alt, t.ntNames[k], lits)
				}
			}
		}
		goal := "true"
		if !ok {
			goal = "false"
		}
		out = append(out, &Obligation{Name: fmt.Sprintf("exec.execContext/transparent[%s]", t.ntNames[k]), Fn: "exec.execContext", Kind: "dispatch", Goal: goal,
			Src: "a nonterminal without a registered handler must be a chain production (at most one nonterminal child per alternate). " + why, Props: []string{"C08", "C01", "C02"}, tr: emptyTrans(v)})
	}
	return out, errs
}

var out0 *fnTrans

func emptyTrans(v *verifier) *fnTrans {
	tr := newFnTrans(v, nil, &Contract{Name: "structural", Loops: map[int]*LoopSpec{}}, nil)
	tr.dry = false
	return tr
}

func keysOf(t *tables, hkey string) []string {
	var out []string
	for k, f := range t.handlers {
		if fnKey(f) == hkey {
			out = append(out, fmt.Sprintf("(= k!d %d)", k))
		}
	}
	sort.Strings(out)
	return out
}

// globalWriteScan (C13): outside package initialisers, a package-level variable of the hand-written packages may only
// be read.  Storing to it, updating it when it is a map, or handing its address to a call (a cache, a sync.Map, a
// pool) makes query results depend on history.  One structural obligation per package.
func (v *verifier) globalWriteScan() []*Obligation {
	var out []*Obligation
	pkgs := []string{xselPath, xselPath + "/exec", xselPath + "/store", xselPath + "/parser", xselPath + "/grammar"}
	for _, pp := range pkgs {
		sp := v.spkgs[pp]
		if sp == nil {
			continue
		}
		var bad []string
		var scan func(fn *ssa.Function)
		scan = func(fn *ssa.Function) {
			if fn.Name() == "init" || strings.HasPrefix(fn.Name(), "init#") {
				return
			}
			for _, b := range fn.Blocks {
				for _, in := range b.Instrs {
					var ops []*ssa.Value
					for _, op := range in.Operands(ops) {
						g, ok := (*op).(*ssa.Global)
						if !ok || g.Pkg == nil || g.Pkg != sp {
							continue
						}
						switch x := in.(type) {
						case *ssa.UnOp:
							continue // a load
						case *ssa.Store:
							if x.Addr == ssa.Value(g) {
								bad = append(bad, fmt.Sprintf("%s stores to %s", fnKey(fn), g.Name()))
							}
							continue
						case *ssa.FieldAddr, *ssa.IndexAddr:
							bad = append(bad, fmt.Sprintf("%s takes the address of a part of %s", fnKey(fn), g.Name()))
						default:
							bad = append(bad, fmt.Sprintf("%s passes the address of %s to %T", fnKey(fn), g.Name(), in))
						}
					}
					if mu, ok := in.(*ssa.MapUpdate); ok {
						if ld, ok := mu.Map.(*ssa.UnOp); ok {
							if g, ok := ld.X.(*ssa.Global); ok && g.Pkg == sp {
								bad = append(bad, fmt.Sprintf("%s updates the package-level map %s", fnKey(fn), g.Name()))
							}
						}
					}
				}
			}
			for _, an := range fn.AnonFuncs {
				scan(an)
			}
		}
		for _, fn := range v.funcs {
			if fn.Pkg == sp && fn.Parent() == nil {
				scan(fn)
			}
		}
		sort.Strings(bad)
		goal := "true"
		src := "package-level variables are only read outside initialisers"
		if len(bad) > 0 {
			goal = "false"
			src += ": " + strings.Join(bad, "; ")
		}
		out = append(out, &Obligation{Name: "structural/no-global-writes[" + sp.Pkg.Name() + "]", Fn: sp.Pkg.Name(), Kind: "structural", Goal: goal, Src: src, Props: []string{"C13"}, tr: emptyTrans(v)})
	}
	return out
}

// builtinFieldScan: the specification treats `builtinFunctions` of every evaluation context as the package table
// (builtinMap).  That is a representation invariant of exprContext, discharged structurally: every exprContext that
// is built gets the field from the package variable exec.builtinFunctions, and nothing else ever writes the field.
func (v *verifier) builtinFieldScan() []*Obligation {
	sp := v.spkgs[xselPath+"/exec"]
	if sp == nil {
		return nil
	}
	var bad []string
	isCtx := func(t types.Type) bool {
		n, ok := t.(*types.Named)
		return ok && n.Obj().Name() == "exprContext" && n.Obj().Pkg() == sp.Pkg
	}
	fieldIdx := -1
	if tn := sp.Type("exprContext"); tn != nil {
		if st, ok := tn.Type().Underlying().(*types.Struct); ok {
			for i := 0; i < st.NumFields(); i++ {
				if st.Field(i).Name() == "builtinFunctions" {
					fieldIdx = i
				}
			}
		}
	}
	if fieldIdx < 0 {
		bad = append(bad, "exprContext has no field builtinFunctions")
	}
	fromTable := func(val ssa.Value) bool {
		u, ok := val.(*ssa.UnOp)
		if !ok {
			return false
		}
		g, ok := u.X.(*ssa.Global)
		return ok && g.Name() == "builtinFunctions" && g.Pkg == sp
	}
	var scan func(fn *ssa.Function)
	scan = func(fn *ssa.Function) {
		for _, b := range fn.Blocks {
			for _, in := range b.Instrs {
				switch x := in.(type) {
				case *ssa.FieldAddr:
					pt, ok := x.X.Type().Underlying().(*types.Pointer)
					if !ok || !isCtx(pt.Elem()) || x.Field != fieldIdx {
						continue
					}
					for _, r := range *x.Referrers() {
						switch r := r.(type) {
						case *ssa.UnOp, *ssa.DebugRef:
						case *ssa.Store:
							if r.Addr != ssa.Value(x) || !fromTable(r.Val) {
								bad = append(bad, fmt.Sprintf("%s stores something other than the package table into exprContext.builtinFunctions", fnKey(fn)))
							}
						default:
							bad = append(bad, fmt.Sprintf("%s lets the address of exprContext.builtinFunctions escape", fnKey(fn)))
						}
					}
				case *ssa.Alloc:
					pt, ok := x.Type().Underlying().(*types.Pointer)
					if !ok || !isCtx(pt.Elem()) {
						continue
					}
					okInit := false
					for _, r := range *x.Referrers() {
						switch r := r.(type) {
						case *ssa.FieldAddr:
							if r.Field == fieldIdx {
								for _, rr := range *r.Referrers() {
									if st, ok := rr.(*ssa.Store); ok && fromTable(st.Val) {
										okInit = true
									}
								}
							}
						case *ssa.Store:
							// whole-struct store of a value produced by a constructor call
							if r.Addr == ssa.Value(x) {
								if c, ok := r.Val.(*ssa.Call); ok && c.Common().StaticCallee() != nil && c.Common().StaticCallee().Name() == "copy" {
									okInit = true
								}
							}
						}
					}
					if !okInit {
						bad = append(bad, fmt.Sprintf("%s builds an exprContext without the package builtin table", fnKey(fn)))
					}
				}
			}
		}
		for _, an := range fn.AnonFuncs {
			scan(an)
		}
	}
	for _, fn := range v.funcs {
		if fn.Pkg == sp && fn.Parent() == nil {
			scan(fn)
		}
	}
	sort.Strings(bad)
	goal, src := "true", "every exprContext carries the package table exec.builtinFunctions in its builtinFunctions field (constructors store it, nothing else writes it)"
	if len(bad) > 0 {
		goal = "false"
		src += ": " + strings.Join(bad, "; ")
	}
	return []*Obligation{{Name: "exec.exprContext/builtin-table-field", Fn: "exec.exprContext", Kind: "structural", Goal: goal, Src: src, Props: []string{"C11", "C08"}, tr: emptyTrans(v)}}
}

// builtinCallObligations: A-FN (the assumed contract of calls through a Function value) is justified for the builtins:
// for every entry of exec.builtinFunctions (name, arity, Go function) the state execFunctionCall calls it in - a valid
// context, well-formed argument values, and the arity the overload table selected - implies the function's own
// precondition, and the function's own postcondition implies the checkable part of A-FN (a non-nil, well-formed value
// when no error is reported; nothing pre-existing written).  Each entry is verified as if it were a function whose
// body is `return builtin(context, args...)`.
func (v *verifier) builtinCallObligations() ([]*Obligation, []string) {
	var out []*Obligation
	var errs []string
	table, terrs := v.builtinTable()
	errs = append(errs, terrs...)
	pre, err1 := parseSpec("context != nil && okargs(args) && context.result != nil && wf(context.result) && resok(context.result) && (forall i Int :: {args[i]} 0 <= i && i < len(args) ==> resok(args[i]))")
	post, err2 := parseSpec("err == nil ==> r != nil && wf(r) && resok(r)")
	if err1 != nil || err2 != nil {
		return nil, []string{fmt.Sprint("builtin obligations: ", err1, err2)}
	}
	old := v.curPkg
	v.curPkg = xselPath + "/exec"
	defer func() { v.curPkg = old }()
	var names []string
	for n := range table {
		names = append(names, n)
	}
	sort.Strings(names)
	for _, n := range names {
		var ars []string
		for a := range table[n] {
			ars = append(ars, a)
		}
		sort.Strings(ars)
		for _, ar := range ars {
			hkey := table[n][ar]
			hc := v.contracts[hkey]
			var fn *ssa.Function
			for _, f := range v.funcs {
				if fnKey(f) == hkey {
					fn = f
				}
			}
			name := fmt.Sprintf("call[%s/%s]", n, ar)
			if hc == nil || fn == nil {
				out = append(out, &Obligation{Name: "exec.builtinFunctions/" + name, Fn: "exec.builtinFunctions", Kind: "dispatch", Goal: "false",
					Src: fmt.Sprintf("builtin %s (%s) has no contract", n, hkey), Props: []string{"C11"}, tr: emptyTrans(v)})
				continue
			}
			var last *fnTrans
			for pass := 0; pass < 2; pass++ {
				g := &Contract{Pkg: xselPath + "/exec", Name: "builtinFunctions", Params: []string{"context", "args"}, Results: []string{"r", "err"}, Uses: []string{"sem"}, Loops: map[int]*LoopSpec{}, Hints: map[string][]Clause{}}
				tr := newFnTrans(v, nil, g, last)
				if pass == 0 {
					tr = newFnTrans(v, nil, g, nil)
				}
				tr.key = "exec.builtinFunctions"
				tr.dry = pass == 0
				tr.uses["sem"] = true
				tr.uses["gentables"] = true
				tr.preludeHeaps(append([]string{"sem"}, hc.Uses...))
				for _, m := range tr.preMaps {
					tr.touchHeap(m, tr.preInfo[m].elem, tr.preInfo[m].isArr)
				}
				tr.alloc = "alloc0"
				sig := fn.Signature
				var args []Term
				for i := 0; i < sig.Params().Len() && i < 2; i++ {
					s, err := v.sortOf(sig.Params().At(i).Type())
					if err != nil {
						tr.errorf("%v", err)
						continue
					}
					pn := "p_" + g.Params[i]
					tr.declare(pn, s)
					tm := T(pn, s)
					tr.params[g.Params[i]] = tm
					tr.hyp(tr.wf(tm, "alloc0"))
					args = append(args, tm)
				}
				tr.entryEnv = tr.env()
				if tm, err := tr.spec(pre, tr.entryEnv); err == nil {
					tr.hyp(tm.S)
				} else {
					tr.errorf("builtin %s: %v", n, err)
				}
				if ar != "*" && len(args) == 2 {
					tr.hyp(app("=", slLen(args[1].S), ar))
				}
				cov := tr.oblige("cover", name+".cover", "false", "", token.NoPos)
				cov.Cover = true
				rts := tr.applyContractSig(hc, hkey, args, sig, "v_call", token.NoPos, func() {})
				env := tr.env()
				env.oldHeap = map[string]string{}
				for i, rn := range g.Results {
					if i < len(rts) {
						env.vars[rn] = rts[i]
					}
				}
				if tm, err := tr.spec(post, env); err == nil {
					tr.oblige("dispatch", name+".post[@well-formed-value-unless-error]", tm.S, fmt.Sprintf("contract of %s entails the checkable part of A-FN", hkey), token.NoPos)
				} else {
					tr.errorf("builtin %s: %v", n, err)
				}
				for _, m := range tr.mapOrder {
					hcur := tr.curHeap(m)
					if hcur == tr.heapEntry(m) {
						continue
					}
					tr.oblige("frame", fmt.Sprintf("%s.frame[%s]", name, m), tr.frameFormula(m, tr.heapEntry(m), hcur, "alloc0", nil), "", token.NoPos)
				}
				last = tr
			}
			for _, e := range last.errs {
				errs = append(errs, name+": "+e)
			}
			for _, o := range last.obls {
				o.Props = append(append([]string{}, hc.Props...), "C11")
				if !strings.Contains(o.Name, "call[") {
					o.Name = "exec.builtinFunctions/" + name + "." + strings.TrimPrefix(o.Name, "exec.builtinFunctions/")
				} else if !strings.HasPrefix(o.Name, "exec.builtinFunctions/") {
					o.Name = "exec.builtinFunctions/" + o.Name
				}
				o.Kind = "dispatch"
			}
			out = append(out, last.obls...)
		}
	}
	return out, errs
}
