package main

import (
	"fmt"
	"go/token"
	"go/types"
	"strings"

	"golang.org/x/tools/go/ssa"
)

func (tr *fnTrans) setVal(v ssa.Value, s *Sort, body string) Term {
	name := tr.vname(v)
	tr.define(name, s, body)
	t := T(name, s)
	tr.vals[v] = t
	return t
}

// constVal: like setVal but the value is a constant with a defining equation (usable in patterns)
func (tr *fnTrans) constVal(v ssa.Value, s *Sort, body string) Term {
	name := tr.vname(v)
	tr.declare(name, s)
	tr.items = append(tr.items, item{text: fmt.Sprintf("(assert (= %s %s))", name, body), isHyp: false})
	t := T(name, s)
	tr.vals[v] = t
	return t
}

func constArray(es *Sort) (string, bool) {
	z := zeroOf(es)
	if strings.Contains(z, "_nil") && z != "Slice_nil" || strings.Contains(z, "str_empty") {
		return "", false
	}
	return fmt.Sprintf("((as const (Array Int %s)) %s)", es.Name, z), true
}

func (tr *fnTrans) freshVal(v ssa.Value, s *Sort) Term {
	name := tr.vname(v)
	tr.declare(name, s)
	t := T(name, s)
	tr.vals[v] = t
	return t
}

func (tr *fnTrans) allocId() string {
	id := tr.define(tr.fresh("id"), SInt, tr.alloc)
	tr.alloc = tr.define(tr.fresh("alloc"), SInt, app("+", tr.alloc, "1"))
	tr.bump("alloc")
	return id
}

func (tr *fnTrans) instr(b *ssa.BasicBlock, in ssa.Instruction) {
	in0 := tr.inB[b]
	switch in := in.(type) {
	case *ssa.DebugRef:
	case *ssa.Alloc:
		pt := in.Type().(*types.Pointer)
		es, err := tr.v.sortOf(pt.Elem())
		if err != nil {
			tr.errorf("%v", err)
			return
		}
		id := tr.allocId()
		if es.Name == "ARRAY" {
			name := "A_" + es.Elem.Tag()
			tr.touchHeap(name, es.Elem, true)
			if ca, ok := constArray(es.Elem); ok {
				h0 := tr.curHeap(name)
				tr.setHeap(name, store(h0, id, ca))
				tr.atStep(name, h0, tr.curHeap(name), app("=", "(sarr s!s)", id), app("=", "(sarr s!s)", id))
			}
		} else {
			name := "H_" + es.Tag()
			tr.touchHeap(name, es, false)
			tr.setHeap(name, store(tr.curHeap(name), id, zeroOf(es)))
			if tr.v.typedSorts[es.Name] {
				// ghost: the set of objects allocated with this struct type
				tn := "T_" + es.Tag()
				tr.touchHeap(tn, SBool, false)
				tr.setHeap(tn, store(tr.curHeap(tn), id, "true"))
			}
		}
		tr.vals[in] = T(id, tr.v.ptrTo(es))
	case *ssa.Store:
		l := tr.locOf(in.Addr, in.Pos())
		tr.storeTo(l, tr.val(in.Val), in.Pos())
	case *ssa.UnOp:
		switch in.Op {
		case token.MUL:
			l := tr.locOf(in.X, in.Pos())
			t := tr.load(l, in.Pos())
			nt := tr.setVal(in, t.T, t.S)
			tr.hyp(implies(in0, tr.wf(nt, tr.alloc)))
			if g, ok := in.X.(*ssa.Global); ok && t.T != nil && t.T.Name == "Slice" && tr.v.emptySliceGlobal(g) {
				// package-level slice initialised once with make(T, 0) and never reassigned
				tr.hyp(app("=", slLen(nt.S), "0"))
			}
			if g, ok := in.X.(*ssa.Global); ok && t.T == SErr && tr.v.nonNilErrGlobal(g) {
				// package-level error value initialised once from fmt.Errorf / errors.New and never reassigned
				tr.hyp(not(app("=", nt.S, "Err_nil")))
			}
		case token.NOT:
			tr.setVal(in, SBool, not(tr.val(in.X).S))
		case token.SUB:
			x := tr.val(in.X)
			if x.T == SF64 {
				tr.setVal(in, SF64, app("fp.neg", x.S))
			} else {
				tr.setVal(in, SInt, app("-", x.S))
			}
		default:
			tr.errorf("unsupported-construct: unary %s in %s", in.Op, tr.key)
		}
	case *ssa.BinOp:
		tr.binop(in)
	case *ssa.If:
		c := tr.val(in.Cond).S
		tr.edge[[2]int{b.Index, b.Succs[0].Index}] = and(in0, c)
		tr.edge[[2]int{b.Index, b.Succs[1].Index}] = and(in0, not(c))
	case *ssa.Jump:
		tr.edge[[2]int{b.Index, b.Succs[0].Index}] = in0
	case *ssa.Return:
		tr.ret(in)
	case *ssa.Panic:
		if !tr.c.MayPanic {
			tr.counters["panic"]++
			tr.oblige("safe", fmt.Sprintf("safe[panic#%d]", tr.counters["panic"]), "false", "", in.Pos())
		}
	case *ssa.RunDefers:
	case *ssa.Call:
		tr.call(in)
	case *ssa.Extract:
		ts, ok := tr.tuples[in.Tuple]
		if !ok || in.Index >= len(ts) {
			tr.errorf("extract from unknown tuple %s in %s", in.Tuple.Name(), tr.key)
			return
		}
		tr.vals[in] = ts[in.Index]
	case *ssa.FieldAddr:
		base := tr.locOf(in.X, in.Pos())
		if !base.nilOK && !base.isArr && len(base.path) == 0 {
			tr.safe("nil", not(app("=", base.obj, "0")), in.Pos())
		}
		l := *base
		l.nilOK = true
		l.path = append(append([]int{}, base.path...), in.Field)
		if in.Field >= len(base.val.Fields) {
			tr.errorf("field address into opaque struct %s in %s", base.val.Name, tr.key)
			return
		}
		l.val = base.val.Fields[in.Field].Sort
		tr.locs[in] = &l
	case *ssa.IndexAddr:
		idx := tr.val(in.Index).S
		xt := in.X.Type().Underlying()
		if _, isSlice := xt.(*types.Slice); isSlice {
			s := tr.val(in.X)
			name := "A_" + s.T.Elem.Tag()
			tr.touchHeap(name, s.T.Elem, true)
			tr.safe("index", and(app("<=", "0", idx), app("<", idx, slLen(s.S))), in.Pos())
			tr.locs[in] = &Loc{heap: name, isArr: true, obj: slArr(s.S), idx: app("+", slOff(s.S), idx), root: s.T.Elem, val: s.T.Elem, nilOK: true, slice: s.S, sidx: idx}
			return
		}
		// pointer to array
		p := tr.val(in.X)
		es := p.T.Elem.Elem
		name := "A_" + es.Tag()
		tr.touchHeap(name, es, true)
		n := xt.(*types.Pointer).Elem().Underlying().(*types.Array).Len()
		tr.safe("index", and(app("<=", "0", idx), app("<", idx, intLit(n))), in.Pos())
		tr.locs[in] = &Loc{heap: name, isArr: true, obj: p.S, idx: idx, root: es, val: es, nilOK: true}
	case *ssa.Field:
		x := tr.val(in.X)
		if in.Field >= len(x.T.Fields) {
			tr.errorf("field of opaque struct %s in %s", x.T.Name, tr.key)
			return
		}
		f := x.T.Fields[in.Field]
		nt := tr.setVal(in, f.Sort, app(fieldSel(x.T, f.Name), x.S))
		tr.hyp(implies(in0, tr.wf(nt, tr.alloc)))
	case *ssa.Index:
		x := tr.val(in.X)
		idx := tr.val(in.Index).S
		if x.T == SStr {
			tr.safe("index", and(app("<=", "0", idx), app("<", idx, app("slen", x.S))), in.Pos())
			tr.setVal(in, SInt, app("sbyte", x.S, idx))
			return
		}
		tr.errorf("unsupported-construct: index of %s in %s", x.T.Name, tr.key)
	case *ssa.Slice:
		tr.sliceOp(in)
	case *ssa.MakeSlice:
		s := tr.sortOfV(in)
		ln, cp := tr.val(in.Len).S, tr.val(in.Cap).S
		tr.safe("makeslice", and(app("<=", "0", ln), app("<=", ln, cp)), in.Pos())
		id := tr.allocId()
		name := "A_" + s.Elem.Tag()
		tr.touchHeap(name, s.Elem, true)
		if ca, ok := constArray(s.Elem); ok {
			h0 := tr.curHeap(name)
			tr.setHeap(name, store(h0, id, ca))
			tr.atStep(name, h0, tr.curHeap(name), app("=", "(sarr s!s)", id), app("=", "(sarr s!s)", id))
		}
		tr.constVal(in, s, mkSlice(id, "0", ln, cp))
	case *ssa.MakeInterface:
		tr.makeInterface(in)
	case *ssa.ChangeType:
		x := tr.val(in.X)
		s := tr.sortOfV(in)
		if x.T != nil && s.Name != x.T.Name {
			tr.errorf("changetype between different sorts %s -> %s in %s", x.T.Name, s.Name, tr.key)
		}
		tr.vals[in] = T(x.S, s)
	case *ssa.ChangeInterface:
		x := tr.val(in.X)
		s := tr.sortOfV(in)
		if x.T != nil && s.Name != x.T.Name {
			// widening into an opaque interface sort (error -> any): boxed like a concrete value; nil stays nil
			tag := sanitize(x.T.Name)
			tr.v.declareBox(s, x.T, tag)
			tr.setVal(in, s, fmt.Sprintf("(ite (= %s %s) %s (box_%s_%s %s))", x.S, zeroOf(x.T), zeroOf(s), s.Name, tag, x.S))
			return
		}
		tr.vals[in] = T(x.S, s)
	case *ssa.Convert:
		tr.convert(in)
	case *ssa.TypeAssert:
		tr.typeAssert(in)
	case *ssa.Lookup:
		x := tr.val(in.X)
		k := tr.val(in.Index)
		if x.T == SStr {
			tr.safe("index", and(app("<=", "0", k.S), app("<", k.S, app("slen", x.S))), in.Pos())
			tr.setVal(in, SInt, app("sbyte", x.S, k.S))
			return
		}
		if ld, ok := in.X.(*ssa.UnOp); ok {
			if g, ok := ld.X.(*ssa.Global); ok && g.Name() == "contextFunctions" && !in.CommaOk {
				// the handler registry: contents extracted from the package initialiser on this run
				tr.uses["gentables"] = true
				tr.setVal(in, SFn, app("handlerFn", k.S))
				return
			}
		}
		if x.T.Elem == nil {
			tr.errorf("lookup in non-map %s", x.T.Name)
			return
		}
		v := T(app("mget_"+x.T.Name, x.S, k.S), x.T.Elem)
		if in.CommaOk {
			vv := tr.define(tr.vname(in)+"_v", v.T, v.S)
			ok := tr.define(tr.vname(in)+"_ok", SBool, app("mhas_"+x.T.Name, x.S, k.S))
			tr.tuples[in] = []Term{T(vv, v.T), T(ok, SBool)}
		} else {
			nt := tr.setVal(in, v.T, v.S)
			tr.hyp(implies(in0, tr.wf(nt, tr.alloc)))
		}
	case *ssa.MapUpdate:
		tr.errorf("unsupported-construct: map update in %s", tr.key)
	case *ssa.MakeMap:
		s := tr.sortOfV(in)
		t := tr.freshVal(in, s)
		tr.hyp(fmt.Sprintf("(forall ((k %s)) (not (mhas_%s %s k)))", s.Fields[0].Sort.Name, s.Name, t.S))
		tr.hyp(not(app("=", t.S, zeroOf(s))))
	case *ssa.Range:
		x := tr.val(in.X)
		if x.T != SStr {
			tr.errorf("unsupported-construct: range over %s in %s", x.T.Name, tr.key)
			return
		}
		// the iterator is a fresh object whose only (ghost) state is the number of characters already yielded
		id := tr.allocId()
		tr.touchHeap("H_Iter", SInt, false)
		tr.setHeap("H_Iter", store(tr.curHeap("H_Iter"), id, "0"))
		tr.vals[in] = x
		if tr.iterId == nil {
			tr.iterId = map[ssa.Value]string{}
		}
		tr.iterId[in] = id
	case *ssa.Next:
		if !in.IsString {
			tr.errorf("unsupported-construct: map iteration in %s", tr.key)
			return
		}
		// string iteration: the j-th step yields the byte offset and the code point of the j-th character of the string
		// (runeOff / runeAt / runeCount: UTF-8 decoding as range does it, specification functions of module core)
		str := tr.val(in.Iter)
		id := tr.iterId[in.Iter]
		tr.touchHeap("H_Iter", SInt, false)
		h0 := tr.curHeap("H_Iter")
		j := tr.declare(tr.fresh(tr.vname(in)+"_j"), SInt)
		tr.hyp(implies(in0, app("=", j, sel(h0, id))))
		ok := tr.declare(tr.fresh(tr.vname(in)+"_ok"), SBool)
		k := tr.declare(tr.fresh(tr.vname(in)+"_k"), SInt)
		r := tr.declare(tr.fresh(tr.vname(in)+"_r"), SInt)
		tr.hyp(implies(in0, and(app("=", ok, app("<", j, app("runeCount", str.S))), app("=", k, app("runeOff", str.S, j)), app("=", r, app("runeAt", str.S, j)))))
		tr.hyp(implies(and(in0, ok), and(app("<=", "0", k), app("<", k, app("slen", str.S)), app("<=", "0", r), app("<=", r, "1114111"))))
		tr.setHeap("H_Iter", store(h0, id, fmt.Sprintf("(ite %s (+ %s 1) %s)", ok, j, j)))
		tr.tuples[in] = []Term{T(ok, SBool), T(k, SInt), T(r, SInt)}
	case *ssa.MakeClosure:
		tr.errorf("unsupported-construct: closure in %s", tr.key)
	default:
		tr.errorf("unsupported-construct: %T in %s", in, tr.key)
	}
}

func (tr *fnTrans) binop(in *ssa.BinOp) {
	x, y := tr.val(in.X), tr.val(in.Y)
	x, y = tr.unifyNil(x, y)
	s := x.T
	if s == nil {
		s = y.T
	}
	if s == nil {
		tr.errorf("binop on untyped nils")
		return
	}
	rs := tr.sortOfV(in)
	switch {
	case s == SF64:
		ops := map[token.Token]string{token.ADD: "fp.add RNE", token.SUB: "fp.sub RNE", token.MUL: "fp.mul RNE", token.QUO: "fp.div RNE",
			token.EQL: "fp.eq", token.LSS: "fp.lt", token.LEQ: "fp.leq", token.GTR: "fp.gt", token.GEQ: "fp.geq"}
		if in.Op == token.NEQ {
			tr.setVal(in, SBool, not(app("fp.eq", x.S, y.S)))
			return
		}
		op, ok := ops[in.Op]
		if !ok {
			tr.errorf("unsupported-construct: float op %s", in.Op)
			return
		}
		tr.setVal(in, rs, app(op, x.S, y.S))
	case s == SInt && s.Elem == nil:
		switch in.Op {
		case token.ADD, token.SUB, token.MUL:
			tr.setVal(in, SInt, app(in.Op.String(), x.S, y.S))
		case token.QUO:
			tr.safe("div", not(app("=", y.S, "0")), in.Pos())
			tr.setVal(in, SInt, app("tdiv", x.S, y.S))
		case token.REM:
			tr.safe("div", not(app("=", y.S, "0")), in.Pos())
			tr.setVal(in, SInt, app("trem", x.S, y.S))
		case token.EQL:
			tr.setVal(in, SBool, app("=", x.S, y.S))
		case token.NEQ:
			tr.setVal(in, SBool, not(app("=", x.S, y.S)))
		case token.LSS, token.LEQ, token.GTR, token.GEQ:
			tr.setVal(in, SBool, app(in.Op.String(), x.S, y.S))
		default:
			tr.errorf("unsupported-construct: int op %s in %s", in.Op, tr.key)
		}
	case s == SStr:
		switch in.Op {
		case token.ADD:
			tr.setVal(in, SStr, app("cat", x.S, y.S))
		case token.EQL:
			tr.setVal(in, SBool, app("=", x.S, y.S))
		case token.NEQ:
			tr.setVal(in, SBool, not(app("=", x.S, y.S)))
		case token.LSS:
			tr.setVal(in, SBool, app("slt", x.S, y.S))
		case token.GTR:
			tr.setVal(in, SBool, app("slt", y.S, x.S))
		case token.LEQ:
			tr.setVal(in, SBool, not(app("slt", y.S, x.S)))
		case token.GEQ:
			tr.setVal(in, SBool, not(app("slt", x.S, y.S)))
		default:
			tr.errorf("unsupported-construct: string op %s", in.Op)
		}
	case s == SBool:
		switch in.Op {
		case token.EQL:
			tr.setVal(in, SBool, app("=", x.S, y.S))
		case token.NEQ:
			tr.setVal(in, SBool, not(app("=", x.S, y.S)))
		default:
			tr.errorf("unsupported-construct: bool op %s", in.Op)
		}
	default:
		switch in.Op {
		case token.EQL:
			tr.setVal(in, SBool, app("=", x.S, y.S))
		case token.NEQ:
			tr.setVal(in, SBool, not(app("=", x.S, y.S)))
		default:
			tr.errorf("unsupported-construct: op %s on %s in %s", in.Op, s.Name, tr.key)
		}
	}
}

func (tr *fnTrans) sliceOp(in *ssa.Slice) {
	xt := in.X.Type().Underlying()
	opt := func(v ssa.Value, def string) string {
		if v == nil {
			return def
		}
		return tr.val(v).S
	}
	switch xt := xt.(type) {
	case *types.Basic: // string
		x := tr.val(in.X)
		lo := opt(in.Low, "0")
		hi := opt(in.High, app("slen", x.S))
		tr.safe("slice", and(app("<=", "0", lo), app("<=", lo, hi), app("<=", hi, app("slen", x.S))), in.Pos())
		tr.setVal(in, SStr, app("ssub", x.S, lo, hi))
	case *types.Slice:
		x := tr.val(in.X)
		lo := opt(in.Low, "0")
		hi := opt(in.High, slLen(x.S))
		mx := opt(in.Max, slCap(x.S))
		tr.safe("slice", and(app("<=", "0", lo), app("<=", lo, hi), app("<=", hi, mx), app("<=", mx, slCap(x.S))), in.Pos())
		nt := tr.constVal(in, x.T, mkSlice(slArr(x.S), app("+", slOff(x.S), lo), app("-", hi, lo), app("-", mx, lo)))
		// elements of the sub-slice are elements of the original (consequence of the definition of at_<sort>)
		hn := "A_" + x.T.Elem.Tag()
		tr.touchHeap(hn, x.T.Elem, true)
		at := "at_" + x.T.Elem.Tag()
		tr.hyp(fmt.Sprintf("(forall ((h!s %s) (j!s Int)) (! (= (%s h!s %s j!s) (%s h!s %s (+ %s j!s))) :pattern ((%s h!s %s j!s))))",
			heapSortName(tr.maps[hn]), at, nt.S, at, x.S, lo, at, nt.S))
		tr.hyp(fmt.Sprintf("(forall ((h!s %s) (k!s Int)) (! (=> (and (<= %s k!s) (< k!s %s)) (= (%s h!s %s (- k!s %s)) (%s h!s %s k!s))) :pattern ((%s h!s %s k!s))))",
			heapSortName(tr.maps[hn]), lo, hi, at, nt.S, lo, at, x.S, at, x.S))
	case *types.Pointer:
		p := tr.val(in.X)
		n := intLit(xt.Elem().Underlying().(*types.Array).Len())
		lo := opt(in.Low, "0")
		hi := opt(in.High, n)
		mx := opt(in.Max, n)
		tr.safe("slice", and(app("<=", "0", lo), app("<=", lo, hi), app("<=", hi, mx), app("<=", mx, n)), in.Pos())
		nt := tr.constVal(in, tr.v.sliceOf(p.T.Elem.Elem), mkSlice(p.S, lo, app("-", hi, lo), app("-", mx, lo)))
		// element terms of a slice over a small fixed array (composite literals, varargs): make them available to triggers
		if alen := xt.Elem().Underlying().(*types.Array).Len(); alen <= 4 && in.Low == nil && in.High == nil {
			es := p.T.Elem.Elem
			hn := "A_" + es.Tag()
			tr.touchHeap(hn, es, true)
			for j := int64(0); j < alen; j++ {
				tr.hyp(app("=", app("at_"+es.Tag(), tr.curHeap(hn), nt.S, intLit(j)), sel(sel(tr.curHeap(hn), p.S), intLit(j))))
			}
		}
	default:
		tr.errorf("unsupported-construct: slice of %T", xt)
	}
}

func (tr *fnTrans) convert(in *ssa.Convert) {
	x := tr.val(in.X)
	s := tr.sortOfV(in)
	from, to := in.X.Type().Underlying(), in.Type().Underlying()
	fb, _ := from.(*types.Basic)
	tb, _ := to.(*types.Basic)
	switch {
	case x.T == s && (s == SF64 || s == SBool || s == SStr):
		tr.vals[in] = T(x.S, s)
	case x.T == SInt && s == SInt && fb != nil && tb != nil:
		// integer width conversions: exact when the value fits (assumption ints-math)
		if fb.Kind() == tb.Kind() || (isWord(fb) && isWord(tb)) {
			tr.vals[in] = T(x.S, s)
		} else {
			tr.setVal(in, SInt, app("intconv_"+tb.Name(), x.S))
			tr.uses["intconv"] = true
		}
	case x.T == SF64 && s == SInt:
		name := "f2i"
		if tb != nil && tb.Kind() != types.Int && tb.Kind() != types.Int64 {
			name = "f2i_" + tb.Name()
			tr.uses["intconv"] = true
		}
		tr.setVal(in, SInt, app(name, x.S))
		if name == "f2i" {
			// float shadow of the truncated value: exact whenever the conversion is defined
			kf := tr.declare(tr.fresh("kf"), SF64)
			tr.hyp(implies(and(app("fp.lt", "(fp #b1 #b10000111110 #x0000000000001)", x.S), app("fp.lt", x.S, "(fp #b0 #b10000111110 #x0000000000000)")),
				app("=", kf, app("fp.roundToIntegral", "RTZ", x.S))))
			tr.shadow[in] = kf
		} else {
			_ = "conv axioms are opt-in (uses conv): identical conversion terms need no axioms"
		}
	case x.T == SF64 && s != nil && s.Name == "F32":
		// float32(x): an uninterpreted rounding function (F32 is an opaque sort)
		if _, ok := tr.v.sortCache["fn|f64to32"]; !ok {
			tr.v.sortCache["fn|f64to32"] = s
			tr.v.opaqueDecls = append(tr.v.opaqueDecls, "(declare-fun f64to32 (F64) F32)")
		}
		tr.setVal(in, s, app("f64to32", x.S))
	case x.T == SInt && s == SF64:
		if kf, ok := tr.shadow[in.X]; ok {
			tr.setVal(in, SF64, kf)
		} else {
			_ = "conv axioms are opt-in (uses conv): identical conversion terms need no axioms"
			tr.setVal(in, SF64, app("i2f", x.S))
		}
	case x.T == SInt && s == SStr:
		tr.setVal(in, SStr, app("runeStr", x.S))
	case x.T == SStr && s.Name == "Slice":
		// []byte(s) / []rune(s): fresh array described by the prelude
		id := tr.allocId()
		fnName := "bytesOf"
		if tb2, ok := to.(*types.Slice); ok {
			if eb, ok := tb2.Elem().Underlying().(*types.Basic); ok && eb.Kind() == types.Int32 {
				fnName = "runesOf"
			}
		}
		name := "A_" + s.Elem.Tag()
		tr.touchHeap(name, s.Elem, true)
		tr.setHeap(name, store(tr.curHeap(name), id, app(fnName+"_arr", x.S)))
		tr.setVal(in, s, mkSlice(id, "0", app(fnName+"_len", x.S), app(fnName+"_len", x.S)))
	case x.T != nil && x.T.Name == "Slice" && s == SStr:
		name := "A_" + x.T.Elem.Tag()
		tr.touchHeap(name, x.T.Elem, true)
		fnName := "strOfBytes"
		if sl, ok := from.(*types.Slice); ok {
			if eb, ok := sl.Elem().Underlying().(*types.Basic); ok && eb.Kind() == types.Int32 {
				fnName = "strOfRunes"
			}
		}
		tr.setVal(in, SStr, app(fnName, sel(tr.curHeap(name), slArr(x.S)), slOff(x.S), slLen(x.S)))
	default:
		tr.errorf("unsupported-construct: convert %s -> %s in %s", in.X.Type(), in.Type(), tr.key)
	}
}

func isWord(b *types.Basic) bool {
	return b.Kind() == types.Int || b.Kind() == types.Int64
}

func (tr *fnTrans) ret(in *ssa.Return) {
	c := tr.c
	env := tr.env()
	env.oldHeap = map[string]string{}
	var rs []Term
	for i, r := range in.Results {
		t := tr.val(r)
		if t.T == nil {
			s, _ := tr.v.sortOf(tr.fn.Signature.Results().At(i).Type())
			t = T(tr.nilOf(s), s)
		}
		rs = append(rs, t)
	}
	if len(c.Results) != len(rs) {
		if len(c.Results) != 0 || len(rs) != 0 {
			tr.errorf("contract for %s binds %d results, function returns %d", tr.key, len(c.Results), len(rs))
			return
		}
	}
	for i, n := range c.Results {
		env.vars[n] = rs[i]
	}
	k := tr.retOrd[in]
	// a return reached through a wide merge (a switch whose cases join): one obligation per incoming case
	var caseConds []string
	var caseBlks []map[int]bool
	for _, pi := range tr.cur.Instrs {
		phi, ok := pi.(*ssa.Phi)
		if !ok {
			break
		}
		if len(phi.Edges) >= 4 {
			for _, p := range tr.cur.Preds {
				if c, ok := tr.edge[[2]int{p.Index, tr.cur.Index}]; ok {
					caseConds = append(caseConds, c)
					keep := map[int]bool{tr.cur.Index: true}
					for _, b := range tr.fn.Blocks {
						if b.Dominates(p) {
							keep[b.Index] = true
						}
					}
					caseBlks = append(caseBlks, keep)
				}
			}
			break
		}
	}
	for i, e := range c.Ensures {
		t, err := tr.spec(e.E, env)
		if err != nil {
			tr.errorf("%s: ensures %s: %v", tr.key, e.Src, err)
			continue
		}
		for ci, cc := range caseConds {
			co := tr.oblige("post", fmt.Sprintf("post[%s]#ret%d.case%d", labelOr(e.Label, i), k, ci), implies(cc, t.S), e.Src, in.Pos())
			co.onlyBlk = caseBlks[ci]
		}
		if len(caseConds) > 0 {
			tr.hyp(implies(tr.inB[tr.cur], t.S))
			continue
		}
		ob := tr.oblige("post", fmt.Sprintf("post[%s]#ret%d", labelOr(e.Label, i), k), t.S, e.Src, in.Pos())
		for _, r := range rs {
			ob.retTerms = append(ob.retTerms, r.S)
		}
		// clauses are proved in order; a later clause of the same return may use the earlier ones
		tr.hyp(implies(tr.inB[tr.cur], t.S))
	}
	// frame: nothing allocated before entry changes unless listed
	for _, m := range tr.mapOrder {
		h := tr.curHeap(m)
		if h == tr.heapEntry(m) {
			continue
		}
		f := tr.frameFormula(m, tr.heapEntry(m), h, "alloc0", tr.modTerms)
		tr.oblige("frame", fmt.Sprintf("frame[%s]#ret%d", m, k), f, "", in.Pos())
	}
	// writes to package-level variables are never allowed outside init
}

func (tr *fnTrans) makeInterface(in *ssa.MakeInterface) {
	x := tr.val(in.X)
	s := tr.sortOfV(in)
	xs := tr.sortOfV(in.X)
	xtName := types.TypeString(in.X.Type(), func(p *types.Package) string { return p.Name() })
	switch s {
	case SVal:
		switch xtName {
		case "exec.Bool":
			tr.setVal(in, SVal, app("VBool", x.S))
		case "exec.Number":
			tr.setVal(in, SVal, app("VNum", x.S))
		case "exec.String":
			tr.setVal(in, SVal, app("VStr", x.S))
		case "exec.NodeSet":
			tr.setVal(in, SVal, app("VSet", x.S))
		default:
			tr.errorf("unsupported-construct: Result implementation %s", xtName)
		}
		return
	case SErr:
		t := tr.freshVal(in, SErr)
		tr.hyp(not(app("=", t.S, "Err_nil")))
		return
	}
	// generic boxing into an opaque interface sort
	tag := sanitize(xtName)
	box := fmt.Sprintf("box_%s_%s", s.Name, tag)
	tr.v.declareBox(s, xs, tag)
	if s.Name == "Int" || s == xs {
		tr.vals[in] = T(x.S, s) // interface modelled by its unique implementation
		return
	}
	tr.setVal(in, s, app(box, x.S))
	// reflection view of a boxed basic value (module reflectspec): the dynamic type has the kind of the underlying
	// basic type and the interface holds exactly the boxed value
	if s.Name == "I_any" && tr.uses["reflectspec"] {
		if b, ok := in.X.Type().Underlying().(*types.Basic); ok {
			bx := tr.vals[in].S
			if k := reflectKindOf(b); k > 0 {
				tr.hyp(app("=", app("rtKind", app("dynType", bx)), intLit(int64(k))))
			}
			switch {
			case xs == SStr:
				tr.hyp(app("=", app("dynStr", bx), x.S))
			case xs == SBool:
				tr.hyp(app("=", app("dynBool", bx), x.S))
			case xs == SF64:
				tr.hyp(app("=", app("dynF64", bx), x.S))
			case xs == SInt:
				tr.hyp(app("=", app("dynInt", bx), x.S))
			}
		}
	}
}

// reflect.Kind of a basic type (reflect's numbering: Bool 1, Int 2 .. Int64 6, Uint 7 .. Uintptr 12, Float32 13, Float64 14, String 24)
func reflectKindOf(b *types.Basic) int {
	switch b.Kind() {
	case types.Bool:
		return 1
	case types.Int:
		return 2
	case types.Int8:
		return 3
	case types.Int16:
		return 4
	case types.Int32:
		return 5
	case types.Int64:
		return 6
	case types.Uint:
		return 7
	case types.Uint8:
		return 8
	case types.Uint16:
		return 9
	case types.Uint32:
		return 10
	case types.Uint64:
		return 11
	case types.Uintptr:
		return 12
	case types.Float32:
		return 13
	case types.Float64:
		return 14
	case types.String:
		return 24
	}
	return 0
}

func (v *verifier) declareBox(iface, conc *Sort, tag string) {
	key := "box|" + iface.Name + "|" + tag
	if _, ok := v.sortCache[key]; ok {
		return
	}
	v.sortCache[key] = iface
	if iface.Name == "Int" || iface == conc {
		return
	}
	box := fmt.Sprintf("box_%s_%s", iface.Name, tag)
	v.opaqueDecls = append(v.opaqueDecls, fmt.Sprintf("(declare-fun %s (%s) %s)\n(declare-fun un%s (%s) %s)\n(declare-fun is_%s_%s (%s) Bool)\n(assert (forall ((x %s)) (! (and (= (un%s (%s x)) x) (is_%s_%s (%s x)) (not (= (%s x) %s))) :pattern ((%s x)))))\n(assert (forall ((y %s)) (! (=> (is_%s_%s y) (= (%s (un%s y)) y)) :pattern ((un%s y)))))",
		box, conc.Name, iface.Name, box, iface.Name, conc.Name, iface.Name, tag, iface.Name,
		conc.Name, box, box, iface.Name, tag, box, box, zeroOf(iface), box,
		iface.Name, iface.Name, tag, box, box, box))
	v.boxTags[iface.Name] = append(v.boxTags[iface.Name], tag)
}

func (tr *fnTrans) typeAssert(in *ssa.TypeAssert) {
	x := tr.val(in.X)
	at := in.AssertedType
	atName := types.TypeString(at, func(p *types.Package) string { return p.Name() })
	var ok string
	var val Term
	s, err := tr.v.sortOf(at)
	if err != nil {
		tr.errorf("%v", err)
		return
	}
	switch {
	case x.T == SVal:
		switch atName {
		case "exec.Bool":
			ok, val = app("(_ is VBool)", x.S), T(app("vbool", x.S), SBool)
		case "exec.Number":
			ok, val = app("(_ is VNum)", x.S), T(app("vnum", x.S), SF64)
		case "exec.String":
			ok, val = app("(_ is VStr)", x.S), T(app("vstr", x.S), SStr)
		case "exec.NodeSet":
			ok, val = app("(_ is VSet)", x.S), T(app("vset", x.S), s)
		default:
			tr.errorf("unsupported-construct: type assertion Result.(%s)", atName)
			return
		}
	case x.T == SNode:
		tr.uses["nodekinds"] = true
		if types.IsInterface(at) {
			pred := map[string]string{"node.NamedNode": "isNamed", "node.Element": "isElement", "node.Namespace": "isNS", "node.Attribute": "isAttr",
				"node.CharData": "isText", "node.Comment": "isComment", "node.ProcInst": "isPI", "node.Root": "isAnyNode", "node.Node": "isAnyNode"}[atName]
			if pred == "" {
				tr.errorf("unsupported-construct: type assertion Node.(%s)", atName)
				return
			}
			ok, val = app(pred, x.S), T(x.S, SNode)
		} else {
			tag := sanitize(atName)
			tr.v.declareBox(SNode, s, tag)
			ok, val = app("is_Node_"+tag, x.S), T(app("unbox_Node_"+tag, x.S), s)
		}
	case x.T != nil && x.T.Name == "Int" && s.Name == "Int":
		// interface modelled by its unique pointer implementation
		ok, val = not(app("=", x.S, "0")), T(x.S, s)
	case x.T != nil && x.T.Opaque:
		if types.IsInterface(at) {
			tr.errorf("unsupported-construct: interface-to-interface assertion %s", atName)
			return
		}
		tag := sanitize(atName)
		tr.v.declareBox(x.T, s, tag)
		ok, val = app("is_"+x.T.Name+"_"+tag, x.S), T(app("unbox_"+x.T.Name+"_"+tag, x.S), s)
	default:
		tr.errorf("unsupported-construct: type assertion on %v to %s in %s", x.T, atName, tr.key)
		return
	}
	if in.CommaOk {
		okn := tr.define(tr.vname(in)+"_ok", SBool, ok)
		// a constant with a defining equation (not a macro): the value may occur in patterns
		vn := tr.declare(tr.vname(in)+"_v", val.T)
		tr.items = append(tr.items, item{text: fmt.Sprintf("(assert (= %s %s))", vn, ite(okn, val.S, zeroOf(val.T))), isHyp: false, blk: tr.curBlk()})
		vt := T(vn, val.T)
		tr.hyp(implies(tr.inB[tr.cur], tr.wf(vt, tr.alloc)))
		tr.tuples[in] = []Term{vt, T(okn, SBool)}
		return
	}
	tr.safe("assert", ok, in.Pos())
	nt := tr.setVal(in, val.T, val.S)
	tr.hyp(implies(tr.inB[tr.cur], tr.wf(nt, tr.alloc)))
}
