package main

import (
	"encoding/json"
	"flag"
	"fmt"
	"os"
	"path/filepath"
	"sort"
	"strconv"
	"strings"
	"sync"
	"time"
)

type KnownFinding struct {
	Property   string `json:"property"`
	Obligation string `json:"obligation"` // exact obligation name
	What       string `json:"what"`
	Witness    string `json:"witness,omitempty"`
}

type KnownFile struct {
	Findings []KnownFinding `json:"findings"`
	Fixed    []string       `json:"fixed"`
}

type Ledger struct {
	// property id -> obligation names that must be present and discharged
	Obligations map[string][]string `json:"obligations"`
}

func loadJSON(path string, v interface{}) error {
	b, err := os.ReadFile(path)
	if err != nil {
		return err
	}
	return json.Unmarshal(b, v)
}

func hasProp(c *Contract, p string) bool {
	for _, q := range c.Props {
		if q == p {
			return true
		}
	}
	return false
}

type checkRun struct {
	v        *verifier
	prop     string
	tier     string
	timeout  int
	reps     []*funcReport
	obls     []*Obligation
	pool     *solverPool
	wall     time.Time
	byBack   map[string]int
	solverS  float64
	cacheHit int
}

func cmdCheck(args []string) int {
	fs := flag.NewFlagSet("check", flag.ExitOnError)
	repo := fs.String("repo", "/repo", "repository")
	prop := fs.String("p", "", "property id")
	tier := fs.String("tier", "quick", "quick|thorough")
	timeout := fs.Int("t", 0, "per-obligation solver timeout (s)")
	nocache := fs.Bool("nocache", false, "ignore the solver result cache")
	updateLedger := fs.Bool("update-ledger", false, "record the discharged obligations of this property in the ledger")
	fs.Parse(args)
	if t := os.Getenv("VERIF_TIER"); t != "" && *tier == "" {
		*tier = t
	}
	if *timeout == 0 {
		*timeout = 90
		if *tier == "thorough" {
			*timeout = 240
		}
	}
	seed := 0
	if s := os.Getenv("VERIF_SEED"); s != "" {
		seed, _ = strconv.Atoi(s)
	}
	t0 := time.Now()
	vd := verifDir()
	v, err := newVerifier(*repo, filepath.Join(vd, "spec"))
	if err != nil {
		fmt.Fprintln(os.Stderr, "ENGINE-FAULT:", err)
		// a repository that no longer loads with its contracts is reported as a violation of the property
		rp := writeReplay(vd, *prop, "load", map[string]interface{}{"obligation": "load", "error": err.Error()})
		fmt.Printf("VIOLATION property=%s replay=%s obligation=load no-failing-input-found\n", *prop, rp)
		return 1
	}
	cache := filepath.Join(vd, ".cache")
	if *nocache {
		cache = ""
	}
	run := &checkRun{v: v, prop: *prop, tier: *tier, timeout: *timeout, pool: newSolverPool(16, cache), wall: t0, byBack: map[string]int{}}
	defer run.pool.close()
	run.reps = v.translateAll(func(c *Contract) bool { return hasProp(c, *prop) })
	var translationErrors []string
	for _, r := range run.reps {
		for _, e := range r.Errors {
			translationErrors = append(translationErrors, r.Key+": "+e)
		}
		if r.tr != nil {
			for _, o := range r.tr.obls {
				if keepForProperty(*prop, o) {
					run.obls = append(run.obls, o)
				}
			}
		}
	}
	run.obls = append(run.obls, v.lemmaObligations(*prop)...)
	if g := v.contracts["call.exec.contextFn"]; g != nil {
		dob, derrs := v.dispatchObligations()
		n := 0
		for _, o := range dob {
			for _, q := range o.Props {
				if q == *prop {
					run.obls = append(run.obls, o)
					n++
					break
				}
			}
		}
		if *prop == "C08" {
			for _, e := range derrs {
				translationErrors = append(translationErrors, "exec.execContext: "+e)
			}
		}
	}
	if *prop == "C13" {
		run.obls = append(run.obls, v.globalWriteScan()...)
	}
	bco, bcerrs := v.builtinCallObligations()
	if *prop == "C11" {
		for _, e := range bcerrs {
			translationErrors = append(translationErrors, "exec.builtinFunctions: "+e)
		}
	}
	for _, o := range append(append(v.builtinObligations(), v.builtinFieldScan()...), bco...) {
		for _, q := range o.Props {
			if q == *prop {
				run.obls = append(run.obls, o)
				break
			}
		}
	}
	// solve
	var wg sync.WaitGroup
	var mu sync.Mutex
	gate := make(chan struct{}, 14)
	// query texts are produced sequentially (translation state is not goroutine-safe); solving is parallel
	queries := make([]string, len(run.obls))
	for i, o := range run.obls {
		queries[i] = o.tr.queryText(o, true)
	}
	for i, o := range run.obls {
		wg.Add(1)
		go func(o *Obligation, q string) {
			defer wg.Done()
			gate <- struct{}{}
			defer func() { <-gate }()
			to := run.timeout
			var which []string
			if o.Cover {
				to = 4
				which = []string{"z3-new"}
			}
			var res SolveResult
			if which == nil && v.knownClause[stripRet(o.Name)] {
				// a listed finding is expected to stay undischarged: one short attempt (it is discharged if the defect is gone)
				res = run.pool.solve(q, 8, []string{"z3-new"})
			} else if which == nil {
				// z3 5.1 alone first: it decides most obligations in well under a second, and not racing three solvers
				// on every obligation keeps the machine uncontended for the ones that need the race
				res = run.pool.solve(q, 8, []string{"z3-new"})
				if res.Status != "unsat" && res.Status != "sat" {
					res = run.pool.solve(q, to, nil)
				}
			} else {
				res = run.pool.solve(q, to, which)
			}
			o.Result = &res
			if dd := os.Getenv("GOVC_SLOW_DIR"); dd != "" && !o.Cover && res.TimeS > 2.5 && !res.Cached {
				os.MkdirAll(dd, 0o755)
				os.WriteFile(filepath.Join(dd, sanitize(o.Name)+".smt2"), []byte(q), 0o644)
			}
			mu.Lock()
			if res.Cached {
				run.cacheHit++
			}
			if res.Status == "unsat" || res.Status == "sat" {
				run.byBack[res.Solver]++
			}
			run.solverS += res.TimeS
			mu.Unlock()
		}(o, queries[i])
	}
	wg.Wait()
	// second chance, without contention: an obligation that only timed out (no model) while many solver processes were
	// racing is retried alone with twice the budget (at most four obligations per run) before it is reported.  Never applied to `sat` answers.
	retried := 0
	undecided := 0
	for _, o := range run.obls {
		if !o.Cover && o.Result != nil && o.Result.Status != "unsat" && o.Result.Status != "sat" && o.Goal != "false" && o.Goal != "true" && !v.knownClause[stripRet(o.Name)] {
			undecided++
		}
	}
	if undecided > 8 {
		retried = 1 << 30 // many obligations at once are a broken function, not solver noise: no second chance needed
	}
	for i, o := range run.obls {
		if o.Cover || o.Result == nil || o.Result.Status == "unsat" || o.Result.Status == "sat" || o.Goal == "false" || o.Goal == "true" || v.knownClause[stripRet(o.Name)] {
			continue
		}
		if retried >= 4 {
			break
		}
		retried++
		if dd := os.Getenv("GOVC_DEBUG_DIR"); dd != "" {
			os.MkdirAll(dd, 0o755)
			os.WriteFile(filepath.Join(dd, sanitize(o.Name)+".smt2"), []byte(queries[i]), 0o644)
		}
		res := run.pool.solve(queries[i], 2*run.timeout, nil)
		if res.Status == "unsat" || res.Status == "sat" {
			o.Result = &res
			run.byBack[res.Solver]++
		}
		run.solverS += res.TimeS
	}

	var known KnownFile
	loadJSON(filepath.Join(vd, "known-findings.json"), &known)
	var ledger Ledger
	loadJSON(filepath.Join(vd, "baseline", "obligations.json"), &ledger)

	violations := 0
	var knownHit []string
	discharged := 0
	total := 0
	covers, coversOK := 0, 0
	present := map[string]bool{}
	var failedNames []string
	report := func(o *Obligation, why string, extra map[string]interface{}) {
		for _, k := range known.Findings {
			if k.Property == *prop && k.Obligation == stripRet(o.Name) {
				fmt.Printf("KNOWN-FINDING: property=%s %s %s\n", *prop, o.Name, k.What)
				knownHit = append(knownHit, o.Name)
				total-- // a listed finding is reported separately, not counted as an obligation of the proof
				return
			}
		}
		violations++
		failedNames = append(failedNames, o.Name)
		data := map[string]interface{}{"obligation": o.Name, "function": o.Fn, "kind": o.Kind, "clause": o.Src, "where": o.Where, "reason": why}
		for k, v := range extra {
			data[k] = v
		}
		suffix := " no-failing-input-found"
		if o.Result != nil {
			data["solver"] = o.Result.Solver
			data["solver_status"] = o.Result.Status
			data["solver_detail"] = o.Result.Detail
			if o.Result.Status != "sat" && o.Result.Status != "unsat" && !o.Cover && o.tr != nil {
				// no model from the full query: look for a candidate counterexample without the quantified axioms
				rq := o.tr.queryText2(o, true, true)
				rr := run.pool.solve(rq, 20, nil)
				if rr.Status == "sat" {
					data["candidate_from_relaxed_query"] = true
					o.Result.Model = rr.Model
					o.relaxed = true
				}
			}
			if o.Result.Model != "" {
				m := o.Result.Model
				if len(m) > 6000 {
					m = m[:6000] + "\n... (truncated)"
				}
				data["model"] = m
				if rp := replayOnRealCode(run, o, data); rp {
					suffix = ""
				}
			}
		}
		path := writeReplay(vd, *prop, o.Name, data)
		fmt.Printf("VIOLATION property=%s replay=%s obligation=%s%s\n", *prop, path, o.Name, suffix)
	}
	for _, o := range run.obls {
		present[o.Name] = true
		present[stripRet(o.Name)] = true
		if o.Cover {
			covers++
			if o.Result.Status == "unsat" {
				fmt.Printf("ENGINE-FAULT: vacuous hypotheses at %s (precondition/invariant/prelude contradictory)\n", o.Name)
				report(o, "vacuity: hypotheses are contradictory", nil)
			} else {
				coversOK++
			}
			continue
		}
		total++
		if o.Result.Status == "unsat" {
			discharged++
			continue
		}
		report(o, "obligation not discharged: "+o.Result.Status, nil)
	}
	for _, e := range translationErrors {
		o := &Obligation{Name: "translate:" + strings.SplitN(e, ":", 2)[0], Fn: strings.SplitN(e, ":", 2)[0], Kind: "translate"}
		total++
		report(o, e, nil)
	}
	// ledger: every recorded obligation must still exist
	for _, name := range ledger.Obligations[*prop] {
		// matched up to the ordinal of the return statement: adding or removing an early return renumbers the
		// per-return obligations without making any clause vanish
		if !present[name] && !present[stripRet(name)] {
			o := &Obligation{Name: name, Kind: "ledger"}
			total++
			report(o, "obligation recorded in the ledger is no longer generated (contract removed, function renamed, or clause dropped)", nil)
		}
	}
	if total == 0 {
		fmt.Printf("ENGINE-FAULT: no obligations generated for %s\n", *prop)
		return 2
	}
	if *updateLedger {
		if ledger.Obligations == nil {
			ledger.Obligations = map[string][]string{}
		}
		var names []string
		for _, o := range run.obls {
			if !o.Cover && o.Result.Status == "unsat" {
				names = append(names, o.Name)
			}
		}
		sort.Strings(names)
		ledger.Obligations[*prop] = names
		os.MkdirAll(filepath.Join(vd, "baseline"), 0o755)
		b, _ := json.MarshalIndent(ledger, "", " ")
		os.WriteFile(filepath.Join(vd, "baseline", "obligations.json"), b, 0o644)
	}
	writeEvidence(run, vd, seed, total, discharged, covers, coversOK, violations, knownHit, failedNames)
	fmt.Printf("govc: property=%s tier=%s functions=%d obligations=%d discharged=%d known=%d violations=%d wall=%.1fs\n",
		*prop, *tier, len(run.reps), total, discharged, len(knownHit), violations, time.Since(t0).Seconds())
	if violations > 0 {
		return 1
	}
	return 0
}

func writeReplay(vd, prop, name string, data map[string]interface{}) string {
	dir := filepath.Join(vd, "replays")
	os.MkdirAll(dir, 0o755)
	path := filepath.Join(dir, prop+"_"+sanitize(name)+".json")
	data["property"] = prop
	b, _ := json.MarshalIndent(data, "", " ")
	os.WriteFile(path, b, 0o644)
	return path
}

func writeEvidence(run *checkRun, vd string, seed, total, discharged, covers, coversOK, violations int, knownHit, failed []string) {
	type fnInfo struct {
		Name        string `json:"name"`
		Obligations int    `json:"obligations"`
		Trusted     bool   `json:"trusted,omitempty"`
	}
	var fns []fnInfo
	assumed := map[string]bool{}
	uses := map[string]bool{}
	for _, r := range run.reps {
		if r.tr == nil {
			continue
		}
		n := 0
		for _, o := range r.tr.obls {
			if !o.Cover {
				n++
			}
		}
		fns = append(fns, fnInfo{Name: r.Key, Obligations: n, Trusted: r.tr.c.Trusted})
		for a := range r.tr.assumed {
			assumed[a] = true
		}
		for u := range r.tr.uses {
			uses[u] = true
		}
	}
	var samples []map[string]string
	var slow []map[string]interface{}
	obls := append([]*Obligation{}, run.obls...)
	sort.Slice(obls, func(i, j int) bool { return obls[i].Result.TimeS > obls[j].Result.TimeS })
	for i, o := range obls {
		if i < 5 {
			slow = append(slow, map[string]interface{}{"obligation": o.Name, "solver": o.Result.Solver, "time_s": o.Result.TimeS, "status": o.Result.Status})
		}
	}
	for i, o := range run.obls {
		if o.Cover || o.Src == "" {
			continue
		}
		if len(samples) < 12 && (i%3 == 0 || len(run.obls) < 30) {
			samples = append(samples, map[string]string{"obligation": o.Name, "clause": o.Src, "where": o.Where, "status": o.Result.Status, "solver": o.Result.Solver})
		}
	}
	if len(samples) == 0 {
		for _, o := range run.obls {
			if len(samples) < 8 {
				samples = append(samples, map[string]string{"obligation": o.Name, "where": o.Where, "status": o.Result.Status})
			}
		}
	}
	var assumptions []string
	var ak []string
	for a := range assumed {
		ak = append(ak, a)
	}
	sort.Strings(ak)
	for _, a := range ak {
		c := run.v.contracts[a]
		kind := "assumed contract (external function, not verified)"
		if c != nil && c.Trusted {
			kind = "trusted contract (body not verified)"
		}
		assumptions = append(assumptions, a+": "+kind)
	}
	var uk []string
	for u := range uses {
		uk = append(uk, u)
	}
	sort.Strings(uk)
	nax := 0
	for _, u := range uk {
		if m := run.v.prelude.Mods[u]; m != nil {
			nax += m.Axioms
		}
	}
	assumptions = append(assumptions,
		fmt.Sprintf("specification prelude modules %v (%d axioms) are a faithful transcription of XPath 1.0 and of the Go operations they name", uk, nax),
		"Go int arithmetic treated as mathematical integers (no overflow below 2^62); float64 is IEEE-754 binary64 in the SMT FP theory, RNE",
		"go/ssa (x/tools v0.29.0) lifted SSA is the semantics of the compiled code; the govc encoder and the SMT solvers (z3 4.8.12, z3 5.1.0, cvc5 1.0.3) are trusted",
		"A-RES: the only exec.Result implementations are Bool, Number, String, NodeSet; A-CUR: store.Cursor methods are pure and deterministic and describe a finite ordered tree")
	level := "proof"
	ev := map[string]interface{}{
		"property_id": run.prop,
		"tier":        run.tier,
		"seed":        seed,
		"level":       level,
		"coverage": map[string]interface{}{
			"obligations":              total,
			"discharged":               discharged,
			"checker_cmd":              fmt.Sprintf("bin/govc check -p %s -tier %s", run.prop, run.tier),
			"trusted_base":             []string{"go/ssa", "govc VC generator (/verif/govc)", "z3 4.8.12", "z3 5.1.0 (z3-new)", "cvc5 1.0.3", "specification prelude /verif/spec"},
			"functions_under_contract": fns,
			"by_backend":               run.byBack,
			"solver_time_s":            run.solverS,
			"cache_hits":               run.cacheHit,
			"slowest":                  slow,
			"samples":                  samples,
			"vacuity":                  map[string]int{"covers": covers, "not_unsat": coversOK},
			"known_findings":           knownHit,
			"failed":                   failed,
			"timeout_s":                run.timeout,
		},
		"assumptions": assumptions,
		"wall_s":      time.Since(run.wall).Seconds(),
		"violations":  violations,
	}
	os.MkdirAll(filepath.Join(vd, "evidence"), 0o755)
	b, _ := json.MarshalIndent(ev, "", " ")
	os.WriteFile(filepath.Join(vd, "evidence", run.prop+".json"), b, 0o644)
}

// stripRet removes the "#retN" suffix so that known findings name the clause, not the return statement.
func stripRet(name string) string {
	if i := strings.LastIndex(name, "#ret"); i >= 0 {
		return name[:i]
	}
	return name
}

// keepForProperty: C13 (purity) and C15 (no crash) are cross-cutting: every function under contract contributes its
// frame obligations to C13 and its safety/termination/structural obligations to C15; the functional clauses of those
// functions are decided under their own properties.
func keepForProperty(prop string, o *Obligation) bool {
	switch prop {
	case "C13":
		// frame obligations, and every clause that establishes freshness (the frame proofs lean on those)
		return o.Kind == "frame" || strings.Contains(o.Name, "@purity") || strings.Contains(o.Src, "fresh(")
	case "C15":
		return o.Kind == "safe" || o.Kind == "dec" || o.Kind == "structural" || strings.Contains(o.Name, "@never-nil") || strings.Contains(o.Name, "@error-iff")
	}
	return true
}
