package main

import (
	"sort"
	"strings"
)

// Lemma modules: a prelude module may mark assertions with a preceding comment line
//
//	;; lemma: <name> props=C01,C03
//
// Such an assertion is used as an axiom by every function that `uses` the module, and is itself
// an obligation: it must follow from the modules the file requires plus the text that precedes it.
type lemmaOb struct {
	module string
	name   string
	props  []string
	body   string // the asserted formula
	before string // module text preceding the lemma
}

func (v *verifier) lemmas() []lemmaOb {
	var out []lemmaOb
	var names []string
	for n := range v.prelude.Mods {
		names = append(names, n)
	}
	sort.Strings(names)
	for _, mn := range names {
		m := v.prelude.Mods[mn]
		lines := strings.Split(m.Text, "\n")
		off := 0
		for i, line := range lines {
			if strings.HasPrefix(line, ";; lemma:") {
				f := strings.Fields(strings.TrimPrefix(line, ";; lemma:"))
				if len(f) == 0 {
					continue
				}
				lo := lemmaOb{module: mn, name: f[0]}
				for _, x := range f[1:] {
					if strings.HasPrefix(x, "props=") {
						lo.props = strings.Split(strings.TrimPrefix(x, "props="), ",")
					}
				}
				rest := strings.Join(lines[i+1:], "\n")
				forms, err := readSx(rest)
				if err != nil || len(forms) == 0 || !forms[0].isL || len(forms[0].list) != 2 || forms[0].list[0].atom != "assert" {
					continue
				}
				lo.body = forms[0].list[1].String()
				lo.before = strings.Join(lines[:i], "\n")
				out = append(out, lo)
			}
			off += len(line) + 1
		}
	}
	return out
}

// lemmaObligations builds one obligation per lemma with property p ("" = all).
func (v *verifier) lemmaObligations(p string) []*Obligation {
	var out []*Obligation
	for _, l := range v.lemmas() {
		if p != "" {
			ok := false
			for _, q := range l.props {
				if q == p {
					ok = true
				}
			}
			if !ok {
				continue
			}
		}
		tr := newFnTrans(v, nil, &Contract{Name: "lemma", Loops: map[int]*LoopSpec{}}, nil)
		tr.dry = false
		tr.key = "spec"
		for _, r := range v.prelude.Mods[l.module].Requires {
			tr.uses[r] = true
		}
		tr.preludeHeaps(v.prelude.Mods[l.module].Requires)
		tr.items = append(tr.items, item{text: replaceLits(l.before, tr), isHyp: false})
		o := &Obligation{Name: "spec/lemma[" + l.module + "." + l.name + "]", Fn: "spec", Kind: "lemma", Goal: l.body, Pos: len(tr.items), Props: l.props, Src: l.body, tr: tr}
		if len(o.Src) > 300 {
			o.Src = o.Src[:300] + "..."
		}
		out = append(out, o)
	}
	return out
}
