package main

import (
	"fmt"
	"math"
	"strings"
)

// Sort is an SMT sort together with the little extra structure the
// translator needs (slice element sort, struct field list).
type Sort struct {
	Name   string  // SMT sort expression
	Elem   *Sort   // for slices and pointers: element / target sort
	Fields []Field // for struct datatypes
	Opaque bool    // declared (uninterpreted) sort
	Zero   string  // SMT term for the Go zero value ("" if none)
}

type Field struct {
	Name string
	Sort *Sort
}

func (s *Sort) String() string { return s.Name }

// heap map name fragment for this sort
func (s *Sort) Tag() string {
	r := strings.NewReplacer("(", "", ")", "", " ", "_", "_ ", "")
	return r.Replace(s.Name)
}

var (
	SInt  = &Sort{Name: "Int", Zero: "0"}
	SBool = &Sort{Name: "Bool", Zero: "false"}
	SF64  = &Sort{Name: "F64", Zero: "((_ to_fp 11 53) RNE 0.0)"}
	SStr  = &Sort{Name: "Str", Opaque: true, Zero: "str_empty"}
	SCur  = &Sort{Name: "Cursor", Opaque: true, Zero: "Cursor_nil"}
	SNode = &Sort{Name: "Node", Opaque: true, Zero: "Node_nil"}
	SErr  = &Sort{Name: "Err", Opaque: true, Zero: "Err_nil"}
	SVal  = &Sort{Name: "Val", Zero: "VNil"}
	SFn   = &Sort{Name: "Fn", Opaque: true, Zero: "Fn_nil"}
	SSl   = &Sort{Name: "Slice", Zero: "Slice_nil"}
)

// Term is an SMT term with its sort. GoElem carries the element sort of a
// slice-typed term.
type Term struct {
	S string
	T *Sort
}

func T(s string, t *Sort) Term { return Term{s, t} }

func app(f string, args ...string) string {
	if len(args) == 0 {
		return f
	}
	return "(" + f + " " + strings.Join(args, " ") + ")"
}

func and(xs ...string) string {
	var ys []string
	for _, x := range xs {
		if x == "true" {
			continue
		}
		ys = append(ys, x)
	}
	if len(ys) == 0 {
		return "true"
	}
	if len(ys) == 1 {
		return ys[0]
	}
	return app("and", ys...)
}

func or(xs ...string) string {
	var ys []string
	for _, x := range xs {
		if x == "false" {
			continue
		}
		ys = append(ys, x)
	}
	if len(ys) == 0 {
		return "false"
	}
	if len(ys) == 1 {
		return ys[0]
	}
	return app("or", ys...)
}

func not(x string) string {
	if x == "true" {
		return "false"
	}
	if x == "false" {
		return "true"
	}
	return app("not", x)
}

func implies(a, b string) string {
	if a == "true" {
		return b
	}
	return app("=>", a, b)
}

func ite(c, a, b string) string { return app("ite", c, a, b) }

func intLit(n int64) string {
	if n < 0 {
		return fmt.Sprintf("(- %d)", -n)
	}
	return fmt.Sprintf("%d", n)
}

func f64Lit(f float64) string {
	b := math.Float64bits(f)
	if f != f {
		return "(_ NaN 11 53)"
	}
	sign := b >> 63
	exp := (b >> 52) & 0x7ff
	man := b & ((1 << 52) - 1)
	return fmt.Sprintf("(fp #b%d #b%011b #b%052b)", sign, exp, man)
}

// slice constructor / accessors (datatype Slice in the prelude)
func mkSlice(arr, off, ln, cp string) string { return app("mkslice", arr, off, ln, cp) }
func slArr(s string) string                  { return app("sarr", s) }
func slOff(s string) string                  { return app("soff", s) }
func slLen(s string) string                  { return app("slen_", s) }
func slCap(s string) string                  { return app("scap", s) }

func sel(a, i string) string      { return app("select", a, i) }
func store(a, i, v string) string { return app("store", a, i, v) }
