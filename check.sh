#!/bin/sh
# usage: check.sh <property> <tier>; everything is rebuilt from /repo's working tree on every run
exec python3 /verif/check.py "$1" "${2:-quick}"
