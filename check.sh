#!/bin/sh
# usage: check.sh <property> <tier>; rebuilds nothing but govc's view of /repo (loaded from source on every run)
export GOFLAGS=-mod=mod GOPROXY=off GOSUMDB=off GOTOOLCHAIN=local
cd /verif || exit 2
[ -x bin/govc ] || (cd govc && go build -o /verif/bin/govc .) || exit 2
exec bin/govc check -p "$1" -tier "${2:-quick}"
