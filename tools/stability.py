#!/usr/bin/env python3
"""stability.py <dir of .smt2 queries> [seeds]: re-runs every query with z3 5.1 under several random seeds (8 in parallel,
40 s each) and prints the ones that do not come back `unsat` under every seed - candidates for an extra lemma/hint."""
import sys, os, subprocess, concurrent.futures as cf
d = sys.argv[1]; seeds = int(sys.argv[2]) if len(sys.argv) > 2 else 3
def run(job):
    f, seed = job
    try:
        r = subprocess.run(['z3-new', 'smt.random_seed=%d' % seed, 'sat.random_seed=%d' % seed, '-T:40', os.path.join(d, f)], capture_output=True, text=True, timeout=60)
        out = [l for l in r.stdout.split('\n') if l and 'WARN' not in l]
        return f, seed, (out[0] if out else 'none')
    except Exception as e:
        return f, seed, 'timeout'
jobs = [(f, s) for f in sorted(os.listdir(d)) if f.endswith('.smt2') for s in range(1, seeds + 1)]
res = {}
with cf.ThreadPoolExecutor(8) as ex:
    for f, s, st in ex.map(run, jobs):
        res.setdefault(f, []).append(st)
bad = {f: v for f, v in res.items() if any(x != 'unsat' for x in v)}
print('%d queries, %d not stable under %d seeds' % (len(res), len(bad), seeds))
for f, v in sorted(bad.items()):
    print(f, v)
