#!/bin/bash
# usage: seedcheck.sh <seed-dir containing patch.diff demo_test.go meta.json> <seed-id> <property>...
# 1. confirms the seeded change in a scratch worktree (builds, existing tests pass, demo fails; demo passes without it)
# 2. applies it to /repo, runs the listed property checks, reverts /repo
# 3. stores everything under /verif/seeded/<seed-id>/
export GOFLAGS=-mod=mod GOPROXY=off GOSUMDB=off GOTOOLCHAIN=local
src=$1; id=$2; shift 2
out=/verif/seeded/$id; mkdir -p $out
cp $src/patch.diff $src/demo_test.go $src/meta.json $src/patch_ported_to_current_tree.diff $out/ 2>/dev/null
patch=$out/patch.diff; [ -f $out/patch_ported_to_current_tree.diff ] && patch=$out/patch_ported_to_current_tree.diff
sw=$(mktemp -d /tmp/sw_XXXXXX); rmdir $sw
git -C /repo worktree add -q --detach $sw HEAD || exit 2
res=$out/confirm.txt; : > $res
( cd $sw && git apply $patch && echo "patch applies: yes" >> $res || { echo "patch applies: NO" >> $res; } 
  go build ./... >> $res 2>&1 && echo "build: ok" >> $res || echo "build: FAIL" >> $res
  if go test -vet=off -count=1 ./... > /tmp/seedtest.$$ 2>&1; then echo "existing tests with change: pass" >> $res; else echo "existing tests with change: FAIL" >> $res; tail -5 /tmp/seedtest.$$ >> $res; fi
  cp $out/demo_test.go ./zz_seed_demo_test.go
  if go test -vet=off -count=1 -run TestSeedDemo . > /tmp/seedtest.$$ 2>&1; then echo "demo with change: PASSES (not a valid seed)" >> $res; else echo "demo with change: fails (as required)" >> $res; fi
  git checkout -q -- . 
  if go test -vet=off -count=1 -run TestSeedDemo . > /tmp/seedtest.$$ 2>&1; then echo "demo without change: passes (as required)" >> $res; else echo "demo without change: FAILS" >> $res; tail -5 /tmp/seedtest.$$ >> $res; fi
  rm -f zz_seed_demo_test.go /tmp/seedtest.$$ )
git -C /repo worktree remove --force $sw
cat $res
# run the checks against the change
cd /verif
if ! git -C /repo diff --quiet; then echo "/repo has uncommitted changes; refusing"; exit 2; fi
git -C /repo apply $patch || { echo "patch does not apply to /repo" | tee -a $res; exit 2; }
: > $out/checks.txt
for p in "$@"; do
  ./check.sh $p quick > /tmp/seedchk.$$ 2>&1; rc=$?
  echo "== property $p exit=$rc" >> $out/checks.txt
  grep -E "^VIOLATION|^govc:" /tmp/seedchk.$$ | cut -c1-260 >> $out/checks.txt
done
rm -f /tmp/seedchk.$$
git -C /repo checkout -- .
# the evidence files now describe the run on the CHANGED tree: put the committed ones (unchanged tree) back
git -C /verif checkout -- evidence/ 2>/dev/null
cat $out/checks.txt
