#!/usr/bin/env python3
"""Writes /verif/MANIFEST.json from the table below (kept next to the checks it describes)."""
import json
props=[json.loads(l)['id'] for l in open('/verif/properties.jsonl')]
CLAIMS = {
 "C07": ("proof", "concat, starts-with, contains, substring-before, substring-after and string-length proved equal to the section 4.2 definitions (over assumed contracts of strings.HasPrefix/Index/Contains and utf8.RuneCountInString); substring, normalize-space and translate proved never to fail or panic for any argument values (all doubles, all strings) and to return a string. Their character-level results are covered by a BOUNDED stand-in only (every string up to 3 characters, 4 in thorough, over a 12-character alphabet x a 17-value numeric grid, against an independent oracle) because the engine does not model UTF-8 decoding of range-over-string", "bounded stand-in for the results of substring/normalize-space/translate (labelled in evidence, not counted as proved); package strings and unicode/utf8 assumed"),
 "C13": ("proof", "the frame obligation of every function under contract (117 functions in exec, store, grammar): nothing allocated before the call changes unless named in the modifies clause; Exec's own clause names nothing of the caller's, so trees, compiled expressions, binding maps and caller-owned node-sets are not written; no package-level state is written outside initialisers (scan); determinism follows from purity of every callee contract", "BuildExpr equivalence across calls not covered (generated parser); user functions assumed pure (A-FN); Unmarshal not yet covered"),
 "C10": ("proof", "contracts on every store operation: each created node is fresh with the given position and parent; addNamespace/inheritNamespaces keep every namespace node owned by its element (fresh copies, overridden by prefix), positions handed out in (element pos, counter]; accessors return the stored fields; the event loop is not recursive (structural obligation). The event loop's whole-tree behaviour (nesting, global uniqueness of positions) is covered by a BOUNDED stand-in only (all conforming streams up to 7 events, 8 in thorough)", "bounded stand-in for createInMemory (labelled in evidence, not counted as proved); Parser contract assumed for the streams enumerated"),
 "C02": ("proof", "execPredicate/execStep/filter-expression handlers equal the Sem definition: one evaluation per context node, position = index in the candidate list in axis order, last() = its length, [n] as IEEE position()=n, (E)[p] numbered in document order, path continued after a filter (dispatch obligations for PathExprFilter*)", "Sem layer (module sem, written from XPath 1.0); A-BSR; the lemma 'strictly monotone sequence is determined by its member set' is assumed (module seqcanon)"),
 "C18": ("proof", "Exec starts from the given cursor with position 1, size 1 (obligations at the execRecover call), and P/R = union over P of R by the Sem equations for RelativeLocationPathWithStep and Step proved for the handlers", "execRecover trusted (defer/recover); user setting callbacks assumed to touch only the settings they are given; function-in-path P/f() not covered (FunctionCall handler not yet under contract)"),
 "C01": ("proof", "every axis selector (13 axes, every context-node kind) returns exactly the XPath 2.2 node set: obligations over an interval-labelled tree of unbounded size", "tree axioms (validated on a concrete document by tools/evalcheck.py), A-CUR; node tests/name tests and step composition are covered through the handler contracts where listed in the evidence"),
 "C03": ("proof", "unique/sort/cleanup and every selector: duplicate-free, strictly monotone results, same element set", "sort.Sort assumed to sort by the verified Less/Swap; tree axioms"),
 "C04": ("proof", "the twelve Result conversion methods, string-value of nodes, number() syntax recogniser and the conversion builtins equal the specification functions toStr/toNum/toBool", "strconv.FormatFloat/ParseFloat assumed correctly rounded on the inputs they are given"),
 "C05": ("proof", "the six comparison handlers return xpcmp(op, Sem(left), Sem(right)) of XPath 3.4 for all operand types, node-set sizes and doubles", "Sem layer: operands are the evaluations of child 0 and child 1 (proved for leftRightIndependentResult incl. Go 1.20 loop-variable aliasing); A-BSR unambiguous child lists"),
 "C06": ("proof", "arithmetic handlers, sum/count/floor/ceiling/round: IEEE-754 results for all doubles (SMT floating-point theory, bit-exact)", "math.Mod assumed to be C fmod = XPath mod; math.Floor/Ceil = roundToIntegral; one known finding (negative ties in round, pinned by the repository's own test)"),
}
NA = {
 "C14": "quantifies over goroutine schedules and the CLI worker pool; sequential function contracts cannot express or decide interleavings and no concurrency-aware deductive verifier is available (the sequential frame condition is reported under C13)",
 "C20": "process-level behaviour of the CLI (argv, directory walking, stdout/stderr, XML encoder round trip): no function-level contract within reach expresses it",
}
m={"version":1,
"setup_cmd":"cd /verif/govc && GOFLAGS=-mod=mod GOPROXY=off GOSUMDB=off GOTOOLCHAIN=local go build -o /verif/bin/govc .",
"hooks":{"guard":"verif","enable":"govc loads /repo with -tags=verif; the hook is the comment-only files */zz_contracts_verif.go (//go:build verif) holding the //@ contracts","baseline_off_cmd":"cd /repo && go test -vet=off -count=1 ./...","source_commits":[],"add_only":True},
"engines":[{"name":"govc","path":"/verif/govc","serves_properties":sorted(CLAIMS),"kind_free_text":"weakest-precondition VC generator over go/ssa of /repo's current tree; contracts as //@ comments in /repo (build tag verif); one SMT query per obligation raced on z3 4.8.12 / z3 5.1.0 / cvc5 1.0.3; counterexamples replayed on the real code with go test -overlay"}],
"checks":[], "not_applicable":[],
"notes":"see DESIGN.md; known-findings.json lists genuine defects not repaired; baseline/obligations.json is the ledger of obligations that must stay present and discharged"}
import subprocess
m["hooks"]["source_commits"]=[l.split()[0] for l in subprocess.run(["git","-C","/repo","log","--format=%h %s"],capture_output=True,text=True).stdout.splitlines() if " hook:" in " "+l]
for p in props:
    if p in CLAIMS:
        cat,text,note=CLAIMS[p]
        m["checks"].append({"property_id":p,"quick_cmd":f"./check.sh {p} quick","thorough_cmd":f"./check.sh {p} thorough","evidence_file":f"/verif/evidence/{p}.json","replay_cmd_template":"cat {path}","engine":"govc",
         "level_claimed":{"category":cat,"text":text,"design_ref":"DESIGN.md section 3, "+p},
         "level_note":"trusted: go/ssa, the govc encoder, the SMT solvers, the specification prelude /verif/spec; "+note+"; every assumed contract is listed in the evidence file",
         "technique":"contract-based deductive verification: WP over go/ssa of the real code, //@ contracts, SMT (z3/cvc5)"})
    else:
        m["not_applicable"].append({"property_id":p,"reason":NA.get(p,"not yet under contract in this build (work in progress; see DESIGN.md)")})
json.dump(m,open('/verif/MANIFEST.json','w'),indent=1)
print("claimed:",sorted(CLAIMS))
