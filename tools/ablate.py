#!/usr/bin/env python3
"""ablate.py <query.smt2> [timeout]: drop groups of quantified assertions and see which one makes the query fast."""
import sys,subprocess
f=sys.argv[1]; T=sys.argv[2] if len(sys.argv)>2 else '20'
s=open(f).read().replace('(get-model)','')
forms=[];d=0;st=None;i=0;incom=False
while i<len(s):
    c=s[i]
    if incom:
        if c=='\n': incom=False
    elif c==';': incom=True
    elif c=='|':
        j=s.index('|',i+1); i=j
    elif c=='(':
        if d==0: st=i
        d+=1
    elif c==')':
        d-=1
        if d==0: forms.append(s[st:i+1])
    i+=1
def run(fs,name):
    open('/tmp/abl.smt2','w').write('\n'.join(fs))
    import time; t0=time.time()
    out=subprocess.run(['z3-new','-T:'+T,'/tmp/abl.smt2'],capture_output=True,text=True).stdout
    print('%-40s %s %.1fs'%(name,[l for l in out.split('\n') if l and not l.startswith('WARN')][:1],time.time()-t0),flush=True)
run(forms,'orig')
isq=lambda x:x.startswith('(assert') and 'forall' in x
groups={'conv':lambda x:'i2f' in x and isq(x),
 'sem-ax':lambda x:'(labelNT (f_S_bsr_BSR_Label b))' in x,
 'steplemma':lambda x:'s!s Slice' in x,
 'cmp':lambda x:('xpcmp' in x or 'cmpS' in x) and x.startswith('(define'),
 'strnum':lambda x:('numSyntax' in x or 'trimLo' in x) and isq(x),
 'tree':lambda x:('childAt' in x or 'attrAt' in x or 'nsAt' in x or '(last ' in x) and isq(x) and 'p_' not in x and 'v_' not in x,
 'selseq':lambda x:('selSeq' in x or 'filterSeq' in x or 'unionSeq' in x or 'ascSeq' in x) and isq(x) and 'v_' not in x,
 'stepseq':lambda x:('stepSeq' in x or 'steperr' in x or 'predSeq' in x or 'prederr' in x) and isq(x) and 'v_' not in x,
 'strings':lambda x:('(cat ' in x or 'ssub' in x or 'sbyte' in x) and isq(x),
 'frames':lambda x:'o!f' in x,
 'append':lambda x:('k!a' in x or 'j!a' in x or 'a!a' in x),
 'strval':lambda x:('elemStr' in x or 'strval' in x) and isq(x),
 'seqcanon':lambda x:('sameset' in x or 'sascq' in x or 'sdescq' in x or 'qnodes' in x or 'aeq' in x) and isq(x) and 'v_' not in x and 'p_' not in x,
 'lemmas':lambda x:'trig' in x and isq(x),
}
for g,pred in groups.items():
    n=sum(1 for x in forms if pred(x))
    if n: run([x for x in forms if not pred(x)],'drop '+g+' (%d)'%n)
