#!/usr/bin/env python3
"""Consistency witness for the specification prelude: a concrete 9-node document
(root, comment, element with 2 namespace nodes, 1 attribute, text child, element child, trailing PI)
is given as ground facts; z3 must find the prelude axioms satisfiable together with it.
Usage: consistency.py [modules...]   (default: tree nodeset axes treelemmas nodekinds)"""
import re, subprocess, sys, os, tempfile
SPEC = os.path.join(os.path.dirname(os.path.abspath(__file__)), '..', 'spec')

def closure(mods):
    out, seen = [], set()
    def visit(m):
        if m in seen: return
        seen.add(m)
        txt = open(os.path.join(SPEC, m + '.smt2')).read()
        for line in txt.split('\n'):
            if line.startswith(';; requires:'):
                for r in line[len(';; requires:'):].split(): visit(r)
        out.append(m)
    for m in mods: visit(m)
    return out

def main():
    mods = sys.argv[1:] or ['tree', 'nodeset', 'axes', 'treelemmas', 'nodekinds']
    order = closure(['core'] + mods)
    core = open(os.path.join(SPEC, 'core.smt2')).read()
    N = 9
    # Cursor becomes a finite datatype so that "every non-nil cursor is a node of the document" is exact
    core = core.replace('(declare-sort Cursor 0)', '(declare-datatypes ((Cursor 0)) (((Cursor_nil) %s)))' % ' '.join('(c%d)' % i for i in range(N)))
    core = core.replace('(declare-const Cursor_nil Cursor)', '')
    q = ['(set-logic ALL)', core,
         '(declare-const A_Cursor!0 (Array Int (Array Int Cursor)))',
         '(declare-fun at_Cursor ((Array Int (Array Int Cursor)) Slice Int) Cursor)',
         '(assert (forall ((h (Array Int (Array Int Cursor))) (s Slice) (k Int)) (! (= (at_Cursor h s k) (select (select h (sarr s)) (+ (soff s) k))) :pattern ((at_Cursor h s k)))))']
    for m in order:
        if m == 'core': continue
        txt = open(os.path.join(SPEC, m + '.smt2')).read()
        txt = re.sub(r'"([^"]*)"', lambda mm: 'lit_' + re.sub(r'\W', '_', mm.group(1)), txt)
        q.append(txt)
    kind = [0, 5, 1, 3, 3, 2, 4, 1, 6]
    parent = [0, 0, 0, 2, 2, 2, 2, 2, 0]
    last = [8, 1, 7, 3, 4, 5, 6, 7, 8]
    children = {0: [1, 2, 8], 2: [6, 7]}
    attrs = {2: [5]}
    nss = {2: [3, 4]}
    q.append('(assert (= root c0))')
    q.append('(assert (= alloc0 100))')
    arr = 1
    rows = {}
    for i in range(N):
        q.append('(assert (= (pos c%d) %d))' % (i, i))
        q.append('(assert (= (atPos %d) c%d))' % (i, i))
        q.append('(assert (= (last c%d) %d))' % (i, last[i]))
        q.append('(assert (= (parent c%d) c%d))' % (i, parent[i]))
        q.append('(declare-const n%d Node)' % i)
        q.append('(assert (= (nodeOf c%d) n%d))' % (i, i))
        q.append('(assert (= (kind n%d) %d))' % (i, kind[i]))
        for fn, at, table in (('children', 'childAt', children), ('attrs', 'attrAt', attrs), ('nss', 'nsAt', nss)):
            lst = table.get(i, [])
            q.append('(assert (= (%s c%d) (mkslice %d 0 %d %d)))' % (fn, i, arr, len(lst), len(lst)))
            for k, x in enumerate(lst):
                q.append('(assert (= (%s c%d %d) c%d))' % (at, i, k, x))
                q.append('(assert (= (select (select A_Cursor!0 %d) %d) c%d))' % (arr, k, x))
                q.append('(assert (= (idx c%d) %d))' % (x, k))
            arr += 1
    q.append('(assert (forall ((a Int)) (= (treeArr a) (and (<= 1 a) (< a %d)))))' % arr)
    # cidx witness: the child whose interval contains n
    for c, lst in children.items():
        for n in range(N):
            for k, ch in enumerate(lst):
                if ch <= n <= last[ch]:
                    q.append('(assert (= (cidx c%d c%d) %d))' % (c, n, k))
    q.append('(check-sat)')
    with tempfile.NamedTemporaryFile('w', suffix='.smt2', delete=False) as f:
        f.write('\n'.join(q))
        path = f.name
    try:
        out = subprocess.run(['z3-new', '-T:120', path], capture_output=True, text=True).stdout.strip()
    finally:
        os.unlink(path)
    first = [l for l in out.split('\n') if l and not l.startswith('WARNING')][:1]
    print('consistency witness (9-node document) for modules', ' '.join(order), '->', first[0] if first else out)
    return 0 if first and first[0] == 'sat' else 1

if __name__ == '__main__':
    sys.exit(main())
