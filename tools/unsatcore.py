#!/usr/bin/env python3
"""unsatcore.py <query.smt2> [timeout]: names every assertion of a dumped query and prints an unsat core (debugging aid
for vacuity alarms: which axioms/hypotheses contradict each other)."""
import sys, re, subprocess, json
src = open(sys.argv[1]).read()
tmo = sys.argv[2] if len(sys.argv) > 2 else '120'
lines = []
for ln in src.split('\n'):
    # drop comments (no string literal in the queries contains ';')
    if ';' in ln:
        ln = ln[:ln.index(';')]
    lines.append(ln)
src = '\n'.join(lines)
forms = []; depth = 0; cur = ''; instr = False
for ch in src:
    if depth == 0 and ch != '(' and not cur:
        continue
    cur += ch
    if ch == '"':
        instr = not instr
    if instr:
        continue
    if ch == '(':
        depth += 1
    elif ch == ')':
        depth -= 1
        if depth == 0:
            forms.append(cur.strip()); cur = ''
out = ['(set-option :produce-unsat-cores true)']
names = {}
n = 0
for f in forms:
    if f.startswith('(assert'):
        body = f[len('(assert'):-1].strip()
        n += 1
        names['a%d' % n] = body
        out.append('(assert (! %s :named a%d))' % (body, n))
    elif f.startswith('(check-sat') or f.startswith('(get-model') or f.startswith('(set-option :timeout') or f.startswith('(get-info'):
        continue
    else:
        out.append(f)
out.append('(check-sat)\n(get-unsat-core)')
open('/tmp/core.smt2', 'w').write('\n'.join(out))
r = subprocess.run(['timeout', tmo, 'z3-new', '/tmp/core.smt2'], capture_output=True, text=True)
o = '\n'.join(l for l in r.stdout.split('\n') if 'WARN' not in l)
print(o[:300])
for a in re.findall(r'\ba\d+\b', o):
    print(a, names.get(a, '')[:400])
