#!/bin/bash
# selftest.sh [seed-id...]: must-fail corpus.  Applies every seeded change under /verif/seeded (or the named ones) to
# /repo, runs the quick check of its property, expects exit 1 with a VIOLATION line, reverts /repo and restores the
# evidence files of the unchanged tree.  Benign changes (seeded/benign/*) are reported with their alarm count only.
# Run it after every change of the engine, the prelude or the contracts (it takes a few minutes per seed).
cd /verif
if ! git -C /repo diff --quiet; then echo "/repo has uncommitted changes; refusing"; exit 2; fi
ids="$@"
if [ -z "$ids" ]; then ids=$(ls seeded | grep -v benign); fi
missed=0
for id in $ids; do
  d=seeded/$id
  patch=$d/patch.diff
  [ -f $d/patch_ported_to_current_tree.diff ] && patch=$d/patch_ported_to_current_tree.diff
  prop=$(python3 -c "import json;print(json.load(open('$d/meta.json'))['property'])" 2>/dev/null)
  [ -z "$prop" ] && prop=${id%%-*}
  if ! git -C /repo apply --check /verif/$patch 2>/dev/null; then echo "$id: patch no longer applies (the code it changed was rewritten since)"; continue; fi
  git -C /repo apply /verif/$patch
  ./check.sh $prop quick > /tmp/selftest.$$ 2>&1; rc=$?
  n=$(grep -c '^VIOLATION' /tmp/selftest.$$)
  git -C /repo checkout -- .
  git -C /verif checkout -- evidence/ 2>/dev/null
  if [ $rc -eq 1 ] && [ $n -gt 0 ]; then echo "$id: caught ($n VIOLATION lines, property $prop)"; else echo "$id: MISSED (exit $rc)"; missed=$((missed+1)); fi
done
rm -f /tmp/selftest.$$
echo "missed: $missed"
exit $missed
