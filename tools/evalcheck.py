#!/usr/bin/env python3
"""evalcheck: evaluate every (assert ...) of the specification prelude on ONE concrete finite model
(the 9-node document also used by consistency.py) and report the asserts that are FALSE there.
This is a sanity check for hand-written axioms (a false or contradictory axiom shows up as FALSE),
not a proof: quantifiers range over small finite domains only.

Usage: evalcheck.py [--extra FILE]... [--interpret-trig] [--spec DIR] [-q] [modules...]
       (default modules: tree nodeset axes treelemmas nodekinds; the `requires` closure is added, core first)

Asserts that mention floating point / string symbols (fp.*, to_fp*, i2f, f2i, slen, sbyte, cat, ssub, slt, trig),
symbols without an interpretation in the model, or quantifiers over sorts without a finite domain are SKIPPED.
With --interpret-trig, trig(x) is interpreted as true instead of causing a skip.
Exit code 0 if no assert is false, 1 otherwise."""
import argparse, itertools, os, re, sys, time

HERE = os.path.dirname(os.path.abspath(__file__))
DEFAULT_MODULES = ['tree', 'nodeset', 'axes', 'treelemmas', 'nodekinds']
SKIP_SYMS = {'i2f', 'f2i', 'slen', 'sbyte', 'cat', 'ssub', 'slt', 'trig'}
SKIP_PREFIXES = ('fp.', 'to_fp')


class Skip(Exception):
    """raised while compiling a term that the evaluator cannot (or must not) interpret"""


# ----------------------------------------------------------------------------- s-expressions

TOKEN = re.compile(r'''\s+|;[^\n]*|(\(|\)|"(?:[^"]|"")*"|\|[^|]*\||[^\s()";|]+)''')


def parse_all(text):
    toks, i = [], 0
    while i < len(text):
        m = TOKEN.match(text, i)
        if not m:
            raise SyntaxError('cannot tokenize at offset %d: %r' % (i, text[i:i + 20]))
        if m.group(1) is not None:
            toks.append(m.group(1))
        i = m.end()
    forms, stack = [], []
    for t in toks:
        if t == '(':
            stack.append([])
        elif t == ')':
            if not stack:
                raise SyntaxError('unbalanced )')
            done = stack.pop()
            (stack[-1] if stack else forms).append(done)
        else:
            if t.startswith('|'):
                t = t[1:-1]
            if not stack:
                raise SyntaxError('atom at top level: ' + t)
            stack[-1].append(t)
    if stack:
        raise SyntaxError('unbalanced (')
    return forms


def show(e):
    return e if isinstance(e, str) else '(' + ' '.join(show(x) for x in e) + ')'


def atoms(e):
    if isinstance(e, str):
        yield e
    else:
        for x in e:
            yield from atoms(x)


def strip_annot(e):
    while isinstance(e, list) and e and e[0] == '!':
        e = e[1]
    return e


# ----------------------------------------------------------------------------- values

class Arr:
    """total array Int -> V in normal form (default value + finitely many exceptions); extensional =="""
    __slots__ = ('default', 'items', '_h')

    def __init__(self, default, items=None):
        self.default = default
        self.items = {k: v for k, v in (items or {}).items() if v != default}
        self._h = None

    def select(self, i):
        return self.items.get(i, self.default)

    def store(self, i, v):
        d = dict(self.items)
        d[i] = v
        return Arr(self.default, d)

    def __eq__(self, o):
        return isinstance(o, Arr) and self.default == o.default and self.items == o.items

    def __ne__(self, o):
        return not self.__eq__(o)

    def __hash__(self):
        if self._h is None:
            self._h = hash((self.default, frozenset(self.items.items())))
        return self._h


# ----------------------------------------------------------------------------- the concrete model

class Model:
    N = 9
    KIND = [0, 5, 1, 3, 3, 2, 4, 1, 6]
    PARENT = [0, 0, 0, 2, 2, 2, 2, 2, 0]
    LAST = [8, 1, 7, 3, 4, 5, 6, 7, 8]
    CHILDREN = {0: [1, 2, 8], 2: [6, 7]}
    ATTRS = {2: [5]}
    NSS = {2: [3, 4]}
    CNIL, NNIL = 'Cursor_nil', 'Node_nil'
    HEAP_SORT = '(Array Int (Array Int Cursor))'

    def __init__(self, interpret_trig=False):
        N, CNIL, NNIL = self.N, self.CNIL, self.NNIL
        cur = ['c%d' % i for i in range(N)]
        nod = ['n%d' % i for i in range(N)]
        ci = {c: i for i, c in enumerate(cur)}
        ni = {n: i for i, n in enumerate(nod)}
        self.cursors, self.nodes = cur + [CNIL], nod + [NNIL]

        def mk(a, o, l, c):
            return ('mkslice', a, o, l, c)

        # the 27 lists, array ids numbered from 1 in the order (cursor, children/attrs/nss)
        lists = {'children': {}, 'attrs': {}, 'nss': {}}
        content = {'children': {}, 'attrs': {}, 'nss': {}}
        heap_rows, idx, arr = {}, {cur[0]: 0}, 1
        self.slice_name = {}
        slice_dom, sub = [], []
        for i in range(N):
            for fn, table in (('children', self.CHILDREN), ('attrs', self.ATTRS), ('nss', self.NSS)):
                lst = [cur[x] for x in table.get(i, [])]
                s = mk(arr, 0, len(lst), len(lst))
                lists[fn][cur[i]] = s
                content[fn][cur[i]] = lst
                heap_rows[arr] = Arr(CNIL, dict(enumerate(lst)))
                for k, x in enumerate(lst):
                    idx[x] = k
                slice_dom.append(s)
                self.slice_name[s] = '%s(%s)' % (fn, cur[i])
                for lo in range(len(lst) + 1):
                    for hi in range(lo, len(lst) + 1):
                        ss = mk(arr, lo, hi - lo, len(lst) - lo)
                        sub.append(ss)
                        self.slice_name.setdefault(ss, '%s(%s)[%d:%d]' % (fn, cur[i], lo, hi))
                arr += 1
        self.narr = arr - 1
        assert self.narr == 27
        nil_slice = mk(0, 0, 0, 0)
        self.slice_name[nil_slice] = 'Slice_nil'
        for s in [nil_slice] + sub:
            if s not in slice_dom:
                slice_dom.append(s)
        self.heap = Arr(Arr(CNIL), heap_rows)
        pos = {c: i for i, c in enumerate(cur)}
        pos[CNIL] = -1
        last = {c: self.LAST[i] for i, c in enumerate(cur)}
        last[CNIL] = -1
        # defaults on Cursor_nil: the (empty) lists of c1, so that the unguarded axioms about the list slices hold
        for fn in lists:
            lists[fn][CNIL] = lists[fn][cur[1]]
            content[fn][CNIL] = []

        def elem(fn):
            def f(c, k):
                lst = content[fn][c]
                return lst[k] if 0 <= k < len(lst) else CNIL
            return f

        def cidx(c, n):
            for k, ch in enumerate(content['children'][c]):
                if pos[ch] <= pos[n] <= last[ch]:
                    return k
            return 0

        def at(h, s, k):
            return h.select(s[1]).select(s[2] + k)

        def memw(h, s, n):
            for k in range(s[3]):
                if at(h, s, k) == n:
                    return k
            return 0

        def mem(h, s, n):
            return any(at(h, s, k) == n for k in range(s[3]))

        # name -> (arity, python function)
        self.funs = {
            'Cursor_nil': (0, lambda: CNIL),
            'Node_nil': (0, lambda: NNIL),
            'root': (0, lambda: cur[0]),
            'alloc0': (0, lambda: 100),
            'A_Cursor!0': (0, lambda: self.heap),
            'pos': (1, lambda c: pos[c]),
            'last': (1, lambda c: last[c]),
            'atPos': (1, lambda i: cur[i] if 0 <= i < N else CNIL),
            'parent': (1, lambda c: cur[self.PARENT[ci[c]]] if c in ci else CNIL),
            'children': (1, lambda c: lists['children'][c]),
            'attrs': (1, lambda c: lists['attrs'][c]),
            'nss': (1, lambda c: lists['nss'][c]),
            'childAt': (2, elem('children')),
            'attrAt': (2, elem('attrs')),
            'nsAt': (2, elem('nss')),
            'idx': (1, lambda c: idx.get(c, 0)),
            'nodeOf': (1, lambda c: nod[ci[c]] if c in ci else NNIL),
            'kind': (1, lambda n: self.KIND[ni[n]] if n in ni else 0),
            'treeArr': (1, lambda a: 1 <= a <= self.narr),
            'cidx': (2, cidx),
            'at_Cursor': (3, at),
            'mem': (3, mem),
            'memw': (3, memw),
        }
        for i in range(N):
            self.funs[cur[i]] = (0, lambda v=cur[i]: v)
            self.funs[nod[i]] = (0, lambda v=nod[i]: v)
        if interpret_trig:
            self.funs['trig'] = (1, lambda x: True)
        self.domains = {
            'Cursor': self.cursors,
            'Node': self.nodes,
            'Int': list(range(-2, 12)),
            'Bool': [False, True],
            'Slice': slice_dom,
            self.HEAP_SORT: [self.heap],
        }

    def fmt(self, v):
        if v is True:
            return 'true'
        if v is False:
            return 'false'
        if isinstance(v, int):
            return str(v)
        if isinstance(v, Arr):
            if v == self.heap:
                return 'A_Cursor!0'
            inner = ' '.join('%s->%s' % (k, self.fmt(x)) for k, x in sorted(v.items.items()))
            return '[%s else %s]' % (inner, self.fmt(v.default))
        if isinstance(v, tuple):
            s = '(' + ' '.join([v[0]] + [self.fmt(x) for x in v[1:]]) + ')' if len(v) > 1 else v[0]
            if v in self.slice_name:
                s += ' {%s}' % self.slice_name[v]
            return s
        return str(v)


# ----------------------------------------------------------------------------- evaluator

def smt_div(a, b):
    if b == 0:
        return 0
    return a // b if b > 0 else -(a // -b)


def smt_mod(a, b):
    return a - b * smt_div(a, b)


def _chain(op):
    def f(*xs):
        return all(op(xs[i], xs[i + 1]) for i in range(len(xs) - 1))
    return f


def _minus(*xs):
    if len(xs) == 1:
        return -xs[0]
    r = xs[0]
    for x in xs[1:]:
        r -= x
    return r


def _times(*xs):
    r = 1
    for x in xs:
        r *= x
    return r


def _fold(op):
    def f(*xs):
        r = xs[0]
        for x in xs[1:]:
            r = op(r, x)
        return r
    return f


def _distinct(*xs):
    return all(xs[i] != xs[j] for i in range(len(xs)) for j in range(i + 1, len(xs)))


STRICT = {
    '+': lambda *xs: sum(xs),
    '-': _minus,
    '*': _times,
    'div': _fold(smt_div),
    'mod': smt_mod,
    'abs': abs,
    '<': _chain(lambda a, b: a < b),
    '<=': _chain(lambda a, b: a <= b),
    '>': _chain(lambda a, b: a > b),
    '>=': _chain(lambda a, b: a >= b),
    '=': _chain(lambda a, b: a == b),
    'distinct': _distinct,
    'not': lambda a: not a,
    'xor': _fold(lambda a, b: a != b),
    'select': lambda a, i: a.select(i),
    'store': lambda a, i, v: a.store(i, v),
}


class Checker:
    def __init__(self, model, interpret_trig=False):
        self.m = model
        self.skip_syms = set(SKIP_SYMS)
        if interpret_trig:
            self.skip_syms.discard('trig')
        self.sort_alias = {}      # name -> sort expr
        self.sorts = {'Int', 'Bool', 'Real'}
        self.declared = {}        # name -> arity (declare-fun / declare-const)
        self.macros = {}          # name -> (params, compiled body) | Skip instance
        self.ctors = {}           # name -> arity
        self.sels = {}            # name -> (ctor, field index)
        self.results = []         # (module, status, text, info)

    # -- sorts
    def canon_sort(self, s):
        if isinstance(s, str):
            return self.canon_sort(self.sort_alias[s]) if s in self.sort_alias else s
        return '(' + ' '.join(self.canon_sort(x) for x in s) + ')'

    def domain(self, s):
        c = self.canon_sort(s)
        if c not in self.m.domains:
            raise Skip('quantifier over sort %s (no finite domain)' % show(s))
        return self.m.domains[c]

    # -- skip rule on symbol names
    def forbidden(self, e):
        for a in atoms(e):
            if a in self.skip_syms or a.startswith(SKIP_PREFIXES):
                return a
        return None

    # -- compilation of terms into closures env -> value
    def compile(self, e, scope):
        if isinstance(e, str):
            if e in scope:
                return lambda env, n=e: env[n]
            if e == 'true':
                return lambda env: True
            if e == 'false':
                return lambda env: False
            if re.fullmatch(r'\d+', e):
                v = int(e)
                return lambda env: v
            if e.startswith('"') or re.fullmatch(r'\d+\.\d+|#[xb][0-9a-fA-F]+', e):
                raise Skip('literal %s has no interpretation' % e)
            return self.compile_app(e, [], scope)
        if not e:
            raise Skip('empty term')
        head = e[0]
        if isinstance(head, list):
            # ((_ is C) x)
            if len(head) == 3 and head[0] == '_' and head[1] == 'is' and len(e) == 2:
                c = head[2]
                if c not in self.ctors:
                    raise Skip('tester for unknown constructor %s' % c)
                a = self.compile(e[1], scope)
                return lambda env: a(env)[0] == c
            raise Skip('unsupported head %s' % show(head))
        if head == '!':
            return self.compile(e[1], scope)
        if head == 'and':
            cs = [self.compile(x, scope) for x in e[1:]]

            def f_and(env):
                for c in cs:
                    if not c(env):
                        return False
                return True
            return f_and
        if head == 'or':
            cs = [self.compile(x, scope) for x in e[1:]]

            def f_or(env):
                for c in cs:
                    if c(env):
                        return True
                return False
            return f_or
        if head == '=>':
            cs = [self.compile(x, scope) for x in e[1:]]
            prem, concl = cs[:-1], cs[-1]

            def f_imp(env):
                for c in prem:
                    if not c(env):
                        return True
                return bool(concl(env))
            return f_imp
        if head == 'ite':
            c, a, b = [self.compile(x, scope) for x in e[1:]]
            return lambda env: a(env) if c(env) else b(env)
        if head == 'let':
            names = [b[0] for b in e[1]]
            vals = [self.compile(b[1], scope) for b in e[1]]
            body = self.compile(e[2], scope | set(names))

            def f_let(env):
                e2 = dict(env)
                for n, v in zip(names, [v(env) for v in vals]):
                    e2[n] = v
                return body(e2)
            return f_let
        if head in ('forall', 'exists'):
            names = [b[0] for b in e[1]]
            doms = [self.domain(b[1]) for b in e[1]]
            body = self.compile(e[2], scope | set(names))
            want = head == 'exists'

            def f_q(env):
                e2 = dict(env)
                for combo in itertools.product(*doms):
                    for n, v in zip(names, combo):
                        e2[n] = v
                    if bool(body(e2)) == want:
                        return want
                return not want
            return f_q
        if head == '_' or head == 'as':
            raise Skip('unsupported indexed/qualified identifier %s' % show(e))
        return self.compile_app(head, e[1:], scope)

    def compile_app(self, head, args, scope):
        bad = self.forbidden(head)
        if bad:
            raise Skip('mentions %s' % bad)
        cargs = [self.compile(a, scope) for a in args]
        n = len(cargs)
        if head in STRICT and n > 0:
            f = STRICT[head]
            if n == 1:
                a0 = cargs[0]
                return lambda env: f(a0(env))
            if n == 2:
                a0, a1 = cargs
                return lambda env: f(a0(env), a1(env))
            return lambda env: f(*[a(env) for a in cargs])
        if head in self.macros:
            mac = self.macros[head]
            if isinstance(mac, Skip):
                raise Skip('uses %s: %s' % (head, mac))
            params, body = mac
            if len(params) != n:
                raise Skip('arity mismatch for %s' % head)
            return lambda env: body({p: a(env) for p, a in zip(params, cargs)})
        if head in self.m.funs:
            ar, f = self.m.funs[head]
            if ar != n:
                raise Skip('arity mismatch for %s (model has %d arguments, term has %d)' % (head, ar, n))
            if n == 0:
                v = f()
                return lambda env: v
            if n == 1:
                a0 = cargs[0]
                return lambda env: f(a0(env))
            if n == 2:
                a0, a1 = cargs
                return lambda env: f(a0(env), a1(env))
            return lambda env: f(*[a(env) for a in cargs])
        if head in self.ctors:
            if self.ctors[head] != n:
                raise Skip('arity mismatch for constructor %s' % head)
            return lambda env: (head,) + tuple(a(env) for a in cargs)
        if head in self.sels and n == 1:
            ctor, k = self.sels[head]
            a0 = cargs[0]

            def f_sel(env):
                v = a0(env)
                if v[0] != ctor:
                    raise ValueError('selector %s applied to %s' % (head, v[0]))
                return v[k + 1]
            return f_sel
        if head in self.declared:
            raise Skip('symbol %s has no interpretation in the model' % head)
        raise Skip('unknown symbol %s' % head)

    def compile_top(self, e, scope):
        """closure env -> None if e is true, else the falsifying assignment of the outermost foralls"""
        e = strip_annot(e)
        if isinstance(e, list) and e and e[0] == 'forall':
            names = [b[0] for b in e[1]]
            doms = [self.domain(b[1]) for b in e[1]]
            inner = self.compile_top(e[2], scope | set(names))

            def f(env):
                e2 = dict(env)
                for combo in itertools.product(*doms):
                    for n, v in zip(names, combo):
                        e2[n] = v
                    r = inner(e2)
                    if r is not None:
                        d = dict(zip(names, combo))
                        d.update(r)
                        return d
                return None
            return f
        c = self.compile(e, scope)
        return lambda env: None if c(env) else {}

    # -- commands
    def datatypes(self, names, bodies):
        for nm, body in zip(names, bodies):
            self.sorts.add(nm)
            if body and body[0] == 'par':
                body = body[2]
            for ctor in body:
                if isinstance(ctor, str):
                    ctor = [ctor]
                self.ctors[ctor[0]] = len(ctor) - 1
                for k, fld in enumerate(ctor[1:]):
                    self.sels[fld[0]] = (ctor[0], k)

    def command(self, module, form):
        if not isinstance(form, list) or not form:
            return
        cmd = form[0]
        if cmd == 'declare-sort':
            self.sorts.add(form[1])
        elif cmd == 'define-sort':
            if form[2]:
                return  # parametric alias: not needed
            self.sort_alias[form[1]] = form[3]
        elif cmd == 'declare-fun':
            self.declared[form[1]] = len(form[2])
        elif cmd == 'declare-const':
            self.declared[form[1]] = 0
        elif cmd == 'declare-datatypes':
            self.datatypes([d[0] for d in form[1]], form[2])
        elif cmd == 'declare-datatype':
            self.datatypes([form[1]], [form[2]])
        elif cmd == 'define-fun':
            name, params, body = form[1], [p[0] for p in form[2]], form[4]
            try:
                bad = self.forbidden(body)
                if bad:
                    raise Skip('mentions %s' % bad)
                self.macros[name] = (params, self.compile(body, frozenset(params)))
            except Skip as s:
                self.macros[name] = s
        elif cmd in ('define-fun-rec', 'define-funs-rec'):
            if cmd == 'define-fun-rec':
                self.macros[form[1]] = Skip('recursive definition')
            else:
                for d in form[1]:
                    self.macros[d[0]] = Skip('recursive definition')
        elif cmd == 'assert':
            self.do_assert(module, form[1])
        # everything else (set-logic, set-option, set-info, check-sat, push, pop, ...) is ignored

    def do_assert(self, module, e):
        text = show(e)
        try:
            bad = self.forbidden(e)
            if bad:
                raise Skip('mentions %s' % bad)
            f = self.compile_top(e, frozenset())
            cex = f({})
        except Skip as s:
            self.results.append((module, 'skip', text, str(s)))
            return
        except Exception as ex:  # evaluation error: report, do not count as checked
            self.results.append((module, 'skip', text, 'evaluation error: %s: %s' % (type(ex).__name__, ex)))
            return
        if cex is None:
            self.results.append((module, 'true', text, None))
        else:
            self.results.append((module, 'false', text, cex))

    def run_text(self, module, text):
        for form in parse_all(text):
            self.command(module, form)


# ----------------------------------------------------------------------------- driver

def closure(spec, mods):
    out, seen = [], set()

    def visit(m):
        if m in seen:
            return
        seen.add(m)
        path = os.path.join(spec, m + '.smt2')
        if not os.path.exists(path):
            sys.exit('evalcheck: no such module: %s (%s)' % (m, path))
        for line in open(path).read().split('\n'):
            if line.startswith(';; requires:'):
                for r in line[len(';; requires:'):].split():
                    visit(r)
        out.append(m)
    for m in mods:
        visit(m)
    return out


def main():
    ap = argparse.ArgumentParser(description='evaluate the prelude asserts on one concrete 9-node model')
    ap.add_argument('modules', nargs='*', help='modules to check (default: %s)' % ' '.join(DEFAULT_MODULES))
    ap.add_argument('--extra', action='append', default=[], metavar='FILE',
                    help='also evaluate the assert forms of FILE under the same model (may be repeated)')
    ap.add_argument('--spec', default=os.path.join(HERE, '..', 'spec'), help='directory of the .smt2 modules')
    ap.add_argument('--interpret-trig', action='store_true', help='interpret trig(x) as true instead of skipping')
    ap.add_argument('-q', '--quiet', action='store_true', help='do not list the skipped asserts')
    args = ap.parse_args()
    t0 = time.time()
    model = Model(interpret_trig=args.interpret_trig)
    ck = Checker(model, interpret_trig=args.interpret_trig)
    order = closure(args.spec, ['core'] + (args.modules or DEFAULT_MODULES))
    units = [(m, os.path.join(args.spec, m + '.smt2')) for m in order]
    units += [('extra:' + os.path.basename(f), f) for f in args.extra]
    for name, path in units:
        ck.run_text(name, open(path).read())
    for name, _ in units:
        rs = [r for r in ck.results if r[0] == name]
        nt = sum(1 for r in rs if r[1] == 'true')
        nf = sum(1 for r in rs if r[1] == 'false')
        ns = sum(1 for r in rs if r[1] == 'skip')
        print('module %-12s %3d asserts: %3d evaluated (%d true, %d FALSE), %d skipped' % (name, len(rs), nt + nf, nt, nf, ns))
        for _, st, text, info in rs:
            if st == 'skip' and not args.quiet:
                print('   skipped [%s]: %s' % (info, text[:100] + ('...' if len(text) > 100 else '')))
        for _, st, text, info in rs:
            if st == 'false':
                print('   FALSE in module %s: %s' % (name, text[:300]))
                if info:
                    print('      falsifying assignment: ' + ', '.join('%s = %s' % (k, model.fmt(v)) for k, v in info.items()))
                else:
                    print('      (no outermost universally quantified variables)')
    nt = sum(1 for r in ck.results if r[1] == 'true')
    nf = sum(1 for r in ck.results if r[1] == 'false')
    ns = sum(1 for r in ck.results if r[1] == 'skip')
    print('model: 9-node document, modules %s, %.1f s' % (' '.join(n for n, _ in units), time.time() - t0))
    print('evalcheck: %d asserts true, %d skipped, %d FALSE' % (nt, ns, nf))
    return 1 if nf else 0


if __name__ == '__main__':
    sys.exit(main())
