#!/usr/bin/env python3
"""check.py <property> <tier>: runs the deductive check (bin/govc) for the property and, where DESIGN.md declares one,
the bounded stand-in; merges what the stand-in covered into evidence/<id>.json under coverage.bounded (never counted as
obligations) and prints VIOLATION lines for failures of either.  Exit 0 = held on everything explored."""
import json, os, subprocess, sys, time
prop = sys.argv[1]; tier = sys.argv[2] if len(sys.argv) > 2 else (os.environ.get('VERIF_TIER') or 'quick')
V = '/verif'
env = dict(os.environ, GOFLAGS='-mod=mod', GOPROXY='off', GOSUMDB='off', GOTOOLCHAIN='local')
os.chdir(V)
if not os.path.exists('bin/govc'):
    subprocess.run(['go', 'build', '-o', V + '/bin/govc', '.'], cwd=V + '/govc', env=env, check=True)
t0 = time.time()
# properties decided by a bounded stand-in alone (no function of theirs is under contract: see DESIGN.md)
BOUNDED_ONLY = set()
claimed = {}
try:
    for c in json.load(open(os.path.join(V, 'MANIFEST.json')))['checks']:
        claimed[c['property_id']] = c['level_claimed']['category']
except Exception:
    pass
if prop in BOUNDED_ONLY:
    rc = 0
    json.dump({'property_id': prop, 'tier': tier, 'seed': 0, 'level': 'exploration', 'coverage': {}, 'wall_s': 0.0, 'violations': 0,
               'assumptions': ['no function of this property is under contract (package reflect is not modelled); decided by the bounded stand-in only']},
              open(os.path.join(V, 'evidence', prop + '.json'), 'w'), indent=1)
else:
    rc = subprocess.run(['bin/govc', 'check', '-p', prop, '-tier', tier], env=env).returncode
    if rc not in (0, 1):
        sys.exit(rc)
# bounded stand-ins: (directory, argv for quick, argv for thorough, what it stands in for)
BOUNDED = {
 'C01': [('bounded/axes', [], [],
          'principal node type of `*` and name tests (XPath 1.0 section 2.3) on the self-including axes from attribute and namespace context nodes: 25 fixed probes.  The Sem specification takes the node tests over from the code (a named node passes `*` on every axis), so this part of C01 is not decided by the proof; the probe records it')],
 'C07': [('bounded/strings', ['-n', '3'], ['-n', '4'],
          'substring / normalize-space / translate / string-length through the real Exec on every string up to N characters over an alphabet with ASCII, XML and non-XML white space, 2-, 3- and 4-byte and combining characters, and every position/length from a grid with fractions, negatives, NaN and infinities, compared with an independent character-level oracle; results checked for UTF-8 validity')],
 'C08': [('bounded/parse', ['-n', '2', '-sample', '1500'], ['-n', '3', '-sample', '6000'],
          'the generated lexer/GLL parser behind BuildExpr: (1) every operator tree up to depth N (sampled from depth 2) over 23 leaves incl. names spelling axes/node types, names with - . digits, paths, calls, variables, rendered with minimal and redundant parentheses and three white-space layouts, must evaluate through BuildExpr+Exec to the value an independent evaluator computes on the tree (precedence, associativity, * / operator-name disambiguation); (2) BuildExpr must accept exactly the strings an independent recursive-descent recogniser of XPath 1.0 (plus the function-step extension) accepts, over all renderings and their single-token deletions, duplications and swaps, and never panic; (3) building and evaluating the same string twice gives the same result')],
 'C09': [('bounded/xml', ['-n', '3'], ['-n', '4'],
          'the document-to-tree mapping of ReadXml: abstract documents (namespace declarations incl. default, override, undeclaration; prefixed and unprefixed names; attributes incl. xml:lang; text, CDATA, references, comments, processing instructions; prolog/epilog variants; three 8-bit encodings) serialised, read with the real ReadXml and compared node by node with the XPath data model computed from the abstract document; 15 malformed inputs must be rejected')],
 'C15': [('bounded/xml', ['-n', '3'], ['-n', '4'], 'no panic / no nil-nil in ReadXml on the enumerated documents and the malformed inputs (the same stand-in as C09)'),
         ('bounded/json', ['-n', '2'], ['-n', '3'], 'no panic / no nil-nil in ReadJson on the enumerated values, every truncation and the malformed texts (the same stand-in as C16)'),
         ('bounded/html', ['-n', '3'], ['-n', '4'], 'no panic in ReadHtml on the assembled documents (the same stand-in as C17)'),
         ('bounded/unmarshal', [], [], 'no panic in Unmarshal for the battery of targets incl. nil, non-pointers, nil pointers and unsupported kinds (the same stand-in as C19)')],
 'C16': [('bounded/json', ['-n', '2'], ['-n', '3'],
          'the JSON-to-tree mapping of ReadJson: enumerated JSON values (nesting, empty containers, duplicate/empty/unusual keys, scalars, several top-level values) compared with the documented #obj/#arr tree; every proper prefix of short renderings and 23 malformed texts must be rejected')],
 'C17': [('bounded/html', ['-n', '3'], ['-n', '4'],
          'the HTML-to-tree mapping of ReadHtml: documents assembled from 26 markup fragments (incl. empty comments) after a doctype, compared node by node with the golang.org/x/net/html parse tree (local names, attributes minus xmlns with prefixes stripped, text, comments, no namespaces), incl. a 300-deep and a 2000-wide document')],
 'C19': [('bounded/unmarshal', [], [],
          'Unmarshal (reflection): a 31-field struct of every supported kind (incl. values at and beyond 2^63), pointer depths 0-2, slices, nested structs and untagged fields, through *T and **T, four slice targets, compared with tag-by-tag evaluation; 23 unsupported targets / wrong shapes must yield errors without panic; a self-referential type probed in a child process')],
 'C10': [('bounded/store', ['-n', '7'], ['-n', '8'],
          'event loop of store.createInMemory: every Parser-contract-conforming event stream up to N events through the real store, compared with an independently built tree (nesting, positions, parent/list consistency, owned namespace nodes), plus one flat stream of 10^6 elements')],
}
viol = 0
bounded = []
for d, qa, ta, what in BOUNDED.get(prop, []):
    args = ta if tier == 'thorough' else qa
    out = os.path.join(V, 'replays', '%s_%s.json' % (prop, d.replace('/', '_')))
    os.makedirs(os.path.dirname(out), exist_ok=True)
    if not os.path.exists(os.path.join(V, d, 'go.sum')):
        subprocess.run(['cp', '/repo/go.sum', os.path.join(V, d, 'go.sum')])
    # defect classes of this stand-in that known-findings.json lists for this property (obligation "bounded:<dir>/<class>")
    listed = {}
    try:
        for k in json.load(open(os.path.join(V, 'known-findings.json'))).get('findings', []):
            pre = 'bounded:%s/' % d
            if k.get('property') == prop and k.get('obligation', '').startswith(pre):
                listed[k['obligation'][len(pre):]] = k
    except Exception:
        pass
    extra = ['-known', ','.join(sorted(listed))] if listed else []
    p = subprocess.run(['go', 'run', '.'] + args + extra + ['-o', out], cwd=os.path.join(V, d), env=env, capture_output=True, text=True)
    summ = {}
    try:
        summ = json.load(open(out))
    except Exception:
        summ = {'error': (p.stdout + p.stderr)[-2000:]}
    ok = p.returncode == 0 and not summ.get('failures') and 'error' not in summ
    for cls, info in sorted((summ.get('known_classes') or {}).items()):
        if cls in listed:
            print('KNOWN-FINDING: property=%s bounded:%s/%s %s (witness %r, %d inputs of this class in this run)' % (prop, d, cls, listed[cls].get('what', ''), info.get('witness'), info.get('count', 0)))
    bounded.append({'stands_in_for': what, 'bound': ' '.join(args), 'label': 'bounded (not a proof, not counted in obligations)', 'result': 'no failure' if ok else 'FAILED', 'summary': {k: v for k, v in summ.items() if k != 'failures'}})
    if not ok:
        viol += 1
        print('VIOLATION property=%s replay=%s obligation=bounded:%s' % (prop, out, d))
ev_path = os.path.join(V, 'evidence', prop + '.json')
try:
    ev = json.load(open(ev_path))
    lvl = claimed.get(prop)
    if lvl and bounded and (lvl != ev.get('level') or prop in BOUNDED_ONLY):
        # the level claimed in MANIFEST.json for a mixed / bounded-only check; the deductive counts stay in coverage
        ev['level'] = lvl
        evals = sum(int(b['summary'].get('evaluations') or b['summary'].get('reads') or b['summary'].get('documents') or b['summary'].get('structure_checks') or 0) for b in bounded)
        dist = sum(int(b['summary'].get('distinct') or b['summary'].get('documents') or b['summary'].get('values') or b['summary'].get('trees') or 0) for b in bounded)
        ev['coverage']['evaluations'] = max(evals, 1)
        ev['coverage']['distinct_nontrivial'] = max(dist, 2)
        ev['coverage']['rule'] = 'bounded stand-in(s): ' + '; '.join(b['summary'].get('bound', b['bound']) for b in bounded) + ' (a case is one generated input; distinct = distinct generated inputs as counted by the harness)'
        smp = []
        for b in bounded:
            smp += list(b['summary'].get('samples') or [])[:4]
        ev['coverage'].setdefault('samples', [])
        ev['coverage']['samples'] = (smp + list(ev['coverage']['samples']))[:8] or ['see coverage.bounded']
        if lvl == 'other':
            ev['coverage']['explanation'] = 'mixed check: the obligations/discharged counts are the deductive part (contracts on the real code, SMT); coverage.bounded lists the bounded stand-in for the part outside the verifier\'s reach, labelled bounded and not counted as proved'
    if bounded:
        ev['coverage']['bounded'] = bounded
        ev['violations'] = ev.get('violations', 0) + viol
        ev['wall_s'] = time.time() - t0
        ev.setdefault('assumptions', []).append('bounded stand-ins listed under coverage.bounded are exhaustive only up to their stated bound')
        json.dump(ev, open(ev_path, 'w'), indent=1)
except Exception as e:
    print('could not update evidence:', e)
sys.exit(1 if (rc == 1 or viol) else 0)
