;; reflectspec: the part of package reflect that exec/unmarshal.go uses, as ghost functions over opaque reflect.Value /
;; reflect.Type values (A-REFLECT, assumed: every `requires` of the extern contracts in exec/zz_contracts_verif.go is
;; the documented panic condition of that method).  Kinds: 17 Array, 18 Chan, 19 Func, 20 Interface, 21 Map,
;; 22 Pointer, 23 Slice, 24 String, 25 Struct, 26 UnsafePointer.
(declare-fun rvValid (O_reflect_Value) Bool)
(declare-fun rvType (O_reflect_Value) I_reflect_Type)
(declare-fun rvNil (O_reflect_Value) Bool)
(declare-fun rvAddr (O_reflect_Value) Bool)     ; CanAddr
(declare-fun rvRO (O_reflect_Value) Bool)       ; obtained through an unexported struct field
(declare-fun rtKind (I_reflect_Type) Int)
(declare-fun rtElem (I_reflect_Type) I_reflect_Type)
(declare-fun rtNumField (I_reflect_Type) Int)
(declare-fun rtFieldType (I_reflect_Type Int) I_reflect_Type)
(declare-fun rtFieldExported (I_reflect_Type Int) Bool)
(declare-fun rtDepth (I_reflect_Type) Int)      ; types are finite: Elem of a pointer type is a smaller type
(declare-fun assignable (I_reflect_Type I_reflect_Type) Bool)
(define-fun rvKind ((v O_reflect_Value)) Int (ite (rvValid v) (rtKind (rvType v)) 0))
(define-fun rvSet ((v O_reflect_Value)) Bool (and (rvAddr v) (not (rvRO v))))   ; CanSet
(define-fun nilable ((k Int)) Bool (or (= k 18) (= k 19) (= k 20) (= k 21) (= k 22) (= k 23) (= k 26)))
(assert (forall ((v O_reflect_Value)) (! (=> (rvAddr v) (rvValid v)) :pattern ((rvAddr v)))))
(assert (forall ((v O_reflect_Value)) (! (=> (rvValid v) (not (= (rvType v) I_reflect_Type_nil))) :pattern ((rvType v)))))
(assert (forall ((t I_reflect_Type)) (! (and (>= (rtDepth t) 0) (>= (rtNumField t) 0)
    (=> (or (= (rtKind t) 17) (= (rtKind t) 18) (= (rtKind t) 21) (= (rtKind t) 22) (= (rtKind t) 23))
        (and (not (= (rtElem t) I_reflect_Type_nil)) (< (rtDepth (rtElem t)) (rtDepth t))))) :pattern ((rtKind t)) :pattern ((rtElem t)))))
(assert (forall ((t I_reflect_Type) (i Int)) (! (=> (and (= (rtKind t) 25) (<= 0 i) (< i (rtNumField t))) (not (= (rtFieldType t i) I_reflect_Type_nil))) :pattern ((rtFieldType t i)))))
(assert (forall ((t I_reflect_Type)) (! (assignable t t) :pattern ((assignable t t)))))
;; the dynamic type / nil-ness of the value an interface holds (reflect.ValueOf, reflect.TypeOf, Value.Interface)
(declare-fun dynType (I_any) I_reflect_Type)
(declare-fun dynNil (I_any) Bool)
;; Go assignability between types (language specification, "Assignability"): a value of a non-interface type is
;; assignable to a type of the same kind only, an interface type is never assignable to a non-interface type, and
;; between types that are neither interface nor channel types assignability is symmetric (identical types, or
;; identical underlying types of which at most one is named).
(assert (forall ((a I_reflect_Type) (b I_reflect_Type)) (! (=> (and (assignable a b) (not (= (rtKind b) 20))) (= (rtKind a) (rtKind b))) :pattern ((assignable a b)))))
(assert (forall ((a I_reflect_Type) (b I_reflect_Type)) (! (=> (and (assignable a b) (not (= (rtKind a) 20)) (not (= (rtKind a) 18)) (not (= (rtKind b) 20)) (not (= (rtKind b) 18))) (assignable b a)) :pattern ((assignable a b)))))
;; the type a pointer chain ends in
(declare-fun rtBase (I_reflect_Type) I_reflect_Type)
(assert (forall ((t I_reflect_Type)) (! (= (rtBase t) (ite (= (rtKind t) 22) (rtBase (rtElem t)) t)) :pattern ((rtBase t)))))
;; what a reflect.Value / an interface value holds (ghost): the interface a Value was made from, and the basic value
;; boxed in an interface (stated by the engine at every conversion of a basic value to `any`)
(declare-fun rvIface (O_reflect_Value) I_any)
(declare-fun dynStr (I_any) Str)
(declare-fun dynBool (I_any) Bool)
(declare-fun dynF64 (I_any) F64)
(declare-fun dynInt (I_any) Int)
