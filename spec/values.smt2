;; values: XPath 1.0 conversions string()/number()/boolean() (sections 4.2-4.4) on the four value types
;; requires: tree
(declare-fun strval (Cursor) Str)        ; string-value of a node (section 5), characterised in module strval
(declare-fun xpnum (Str) F64)            ; the number denoted by a string (module strnum): NaN unless S? '-'? Number S?
(declare-fun fmtf (F64) Str)             ; shortest decimal without exponent that reads back to the same double (strconv 'f', -1)
(define-fun numStr ((f F64)) Str
  (ite (fp.isNaN f) "NaN" (ite (fp.isInfinite f) (ite (fp.isNegative f) "-Infinity" "Infinity") (ite (fp.isZero f) "0" (fmtf f)))))
;; abstract (heap-independent) node sequences and values
(declare-sort NSeq 0)
(declare-fun qlen (NSeq) Int)
(declare-fun qat (NSeq Int) Cursor)
(assert (forall ((q NSeq)) (! (>= (qlen q) 0) :pattern ((qlen q)))))
;; heapfn: seqOf
(declare-fun seqOf (AH_Cursor Slice) NSeq)
(assert (forall ((h AH_Cursor) (s Slice)) (! (= (qlen (seqOf h s)) (slen_ s)) :pattern ((seqOf h s)))))
(assert (forall ((h AH_Cursor) (s Slice) (k Int)) (! (=> (and (<= 0 k) (< k (slen_ s))) (= (qat (seqOf h s) k) (at_Cursor h s k)))
   :pattern ((qat (seqOf h s) k)) :pattern ((seqOf h s) (at_Cursor h s k)))))
;; first node of a sequence in document order
(declare-fun qfirst (NSeq) Cursor)
(declare-fun qfirstIdx (NSeq) Int)
(assert (forall ((q NSeq)) (! (=> (> (qlen q) 0) (and (<= 0 (qfirstIdx q)) (< (qfirstIdx q) (qlen q)) (= (qfirst q) (qat q (qfirstIdx q))))) :pattern ((qfirst q)))))
(assert (forall ((q NSeq) (k Int)) (! (=> (and (<= 0 k) (< k (qlen q))) (<= (pos (qfirst q)) (pos (qat q k)))) :pattern ((qfirst q) (qat q k)))))
(define-fun firstDoc ((h AH_Cursor) (s Slice)) Cursor (qfirst (seqOf h s)))
(declare-datatypes ((AVal 0)) (((ANil) (ABool (abool Bool)) (ANum (anum F64)) (AStr (astr Str)) (ASet (aset NSeq)))))
(define-fun absv ((h AH_Cursor) (v Val)) AVal
  (ite ((_ is VBool) v) (ABool (vbool v))
  (ite ((_ is VNum) v) (ANum (vnum v))
  (ite ((_ is VStr) v) (AStr (vstr v))
  (ite ((_ is VSet) v) (ASet (seqOf h (vset v))) ANil)))))
(define-fun atoStr ((a AVal)) Str
  (ite ((_ is AStr) a) (astr a)
  (ite ((_ is ABool) a) (ite (abool a) "true" "false")
  (ite ((_ is ANum) a) (numStr (anum a))
  (ite ((_ is ASet) a) (ite (= (qlen (aset a)) 0) str_empty (strval (qfirst (aset a))))
       str_empty)))))
(define-fun atoNum ((a AVal)) F64
  (ite ((_ is ANum) a) (anum a)
  (ite ((_ is ABool) a) (ite (abool a) ((_ to_fp 11 53) RNE 1.0) ((_ to_fp 11 53) RNE 0.0))
       (xpnum (atoStr a)))))
(define-fun atoBool ((a AVal)) Bool
  (ite ((_ is ABool) a) (abool a)
  (ite ((_ is ANum) a) (and (not (fp.isNaN (anum a))) (not (fp.isZero (anum a))))
  (ite ((_ is AStr) a) (> (slen (astr a)) 0)
  (ite ((_ is ASet) a) (> (qlen (aset a)) 0) false)))))
(define-fun toStr ((h AH_Cursor) (v Val)) Str (atoStr (absv h v)))
(define-fun toNum ((h AH_Cursor) (v Val)) F64 (atoNum (absv h v)))
(define-fun toBool ((v Val)) Bool
  (ite ((_ is VBool) v) (vbool v)
  (ite ((_ is VNum) v) (and (not (fp.isNaN (vnum v))) (not (fp.isZero (vnum v))))
  (ite ((_ is VStr) v) (> (slen (vstr v)) 0)
  (ite ((_ is VSet) v) (> (slen_ (vset v)) 0) false)))))
;; argument vectors of builtin/user functions hold evaluated results (heap A_Val!0 at entry): never a nil Result
(define-sort AH_Val () (Array Int (Array Int Val)))
(define-fun okargs ((h AH_Val) (s Slice)) Bool
  (forall ((k Int)) (! (=> (and (<= 0 k) (< k (slen_ s))) (not (= (at_Val h s k) VNil))) :pattern ((at_Val h s k)))))
;; sum(): left fold of IEEE addition over number(string-value) of the nodes, starting from +0
;; heapfn: fsum
(declare-fun fsum (AH_Cursor Slice Int) F64)
(assert (forall ((h AH_Cursor) (s Slice)) (! (= (fsum h s 0) ((_ to_fp 11 53) RNE 0.0)) :pattern ((fsum h s 0)))))
(assert (forall ((h AH_Cursor) (s Slice) (k Int)) (! (=> (and (<= 0 k) (< k (slen_ s)))
   (= (fsum h s (+ k 1)) (fp.add RNE (fsum h s k) (xpnum (strval (at_Cursor h s k)))))) :pattern ((fsum h s (+ k 1))) :pattern ((fsum h s k) (at_Cursor h s k)))))
