;; values: XPath 1.0 conversions string()/number()/boolean() (sections 4.2-4.4) on the four value types
;; requires: tree
(declare-fun strval (Cursor) Str)        ; string-value of a node (section 5), characterised in module strval
(declare-fun xpnum (Str) F64)            ; the number denoted by a string, NaN unless it is an XPath Number with optional whitespace
(declare-fun fmtf (F64) Str)             ; shortest decimal without exponent that reads back to the same double (strconv 'f', -1)
(define-fun numStr ((f F64)) Str
  (ite (fp.isNaN f) "NaN" (ite (fp.isInfinite f) (ite (fp.isNegative f) "-Infinity" "Infinity") (ite (fp.isZero f) "0" (fmtf f)))))
;; first node of a node-set in document order
;; heapfn: firstDoc firstIdx
(declare-fun firstDoc (AH_Cursor Slice) Cursor)
(declare-fun firstIdx (AH_Cursor Slice) Int)
(assert (forall ((h AH_Cursor) (s Slice)) (! (=> (> (slen_ s) 0)
   (and (<= 0 (firstIdx h s)) (< (firstIdx h s) (slen_ s)) (= (firstDoc h s) (at_Cursor h s (firstIdx h s)))))
   :pattern ((firstDoc h s)))))
(assert (forall ((h AH_Cursor) (s Slice) (k Int)) (! (=> (and (<= 0 k) (< k (slen_ s)))
   (<= (pos (firstDoc h s)) (pos (at_Cursor h s k))))
   :pattern ((firstDoc h s) (at_Cursor h s k)))))
(define-fun toStr ((h AH_Cursor) (v Val)) Str
  (ite ((_ is VStr) v) (vstr v)
  (ite ((_ is VBool) v) (ite (vbool v) "true" "false")
  (ite ((_ is VNum) v) (numStr (vnum v))
  (ite ((_ is VSet) v) (ite (= (slen_ (vset v)) 0) str_empty (strval (firstDoc h (vset v))))
       str_empty)))))
(define-fun toNum ((h AH_Cursor) (v Val)) F64
  (ite ((_ is VNum) v) (vnum v)
  (ite ((_ is VBool) v) (ite (vbool v) ((_ to_fp 11 53) RNE 1.0) ((_ to_fp 11 53) RNE 0.0))
       (xpnum (toStr h v)))))
(define-fun toBool ((v Val)) Bool
  (ite ((_ is VBool) v) (vbool v)
  (ite ((_ is VNum) v) (and (not (fp.isNaN (vnum v))) (not (fp.isZero (vnum v))))
  (ite ((_ is VStr) v) (> (slen (vstr v)) 0)
  (ite ((_ is VSet) v) (> (slen_ (vset v)) 0) false)))))
;; argument vectors of builtin/user functions hold evaluated results (heap A_Val!0 at entry): never a nil Result
(define-sort AH_Val () (Array Int (Array Int Val)))
(define-fun okargs ((h AH_Val) (s Slice)) Bool
  (forall ((k Int)) (! (=> (and (<= 0 k) (< k (slen_ s))) (not (= (at_Val h s k) VNil))) :pattern ((at_Val h s k)))))
