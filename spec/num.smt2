;; num: XPath 1.0 numeric specification functions (section 4.4), independent of the code
(define-fun f_half () F64 ((_ to_fp 11 53) RNE 0.5))
(define-fun f_one () F64 ((_ to_fp 11 53) RNE 1.0))
(define-fun f_zero () F64 ((_ to_fp 11 53) RNE 0.0))
(define-fun f_two52 () F64 ((_ to_fp 11 53) RNE 4503599627370496.0))
;; xpround(n, r): r is the integer closest to n, ties toward +infinity (sign of a zero result is free).
;; For |n| >= 2^52 every double is integral, so r must equal n; below that r +- 0.5 is exact.
(define-fun xpround ((n F64) (r F64)) Bool
  (ite (fp.geq (fp.abs n) f_two52)
       (fp.eq r n)
       (and (not (fp.isNaN r)) (not (fp.isInfinite r))
            (fp.eq (fp.roundToIntegral RTZ r) r)
            (fp.leq (fp.sub RNE r f_half) n)
            (fp.lt n (fp.add RNE r f_half)))))
;; math.Mod (C fmod): assumed to be the XPath `mod` (truncating remainder, sign of dividend)
(declare-fun fmod (F64 F64) F64)
;; a tie strictly below -0.5 (n = -(k + 0.5), k >= 1): the input class on which the library rounds away from zero
(define-fun negtie ((n F64)) Bool
  (and (not (fp.isNaN n)) (not (fp.isInfinite n)) (fp.lt n (fp.neg f_half))
       (fp.eq (fp.sub RNE n (fp.roundToIntegral RTN n)) f_half)))
