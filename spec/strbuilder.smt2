;; strbuilder: the accumulated text of a strings.Builder value; the zero Builder is empty
;; requires: strval
(declare-fun sbstr (O_strings_Builder) Str)
(assert (= (sbstr O_strings_Builder_nil) str_empty))
