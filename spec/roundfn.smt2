;; roundfn: round() of XPath 1.0 section 4.4 as a function (unique up to the sign of a zero result)
;; requires: num
(declare-fun rndrel (F64 F64) Bool)
(assert (forall ((n F64) (r F64)) (! (= (rndrel n r)
  (and (=> (fp.isNaN n) (fp.isNaN r)) (=> (fp.isInfinite n) (= r n)) (=> (and (not (fp.isNaN n)) (not (fp.isInfinite n))) (xpround n r)))) :pattern ((rndrel n r)))))
(declare-fun xprnd (F64) F64)
(assert (forall ((n F64)) (! (rndrel n (xprnd n)) :pattern ((xprnd n)))))
(define-fun fsame ((a F64) (b F64)) Bool (or (fp.eq a b) (and (fp.isNaN a) (fp.isNaN b))))
;; lemma: round-unique props=C07,C06
(assert (forall ((n F64) (a F64) (b F64)) (! (=> (and (rndrel n a) (rndrel n b)) (fsame a b)) :pattern ((rndrel n a) (rndrel n b)))))
;; lemma: fadd-congruent props=C07
(assert (forall ((a F64) (a2 F64) (b F64) (b2 F64)) (! (=> (and (fsame a a2) (fsame b b2)) (fsame (fp.add RNE a b) (fp.add RNE a2 b2))) :pattern ((fp.add RNE a b) (fp.add RNE a2 b2)))))
