;; xmlspec: which attributes of a start tag are namespace declarations (encoding/xml reports xmlns="u" as
;; {Space:"", Local:"xmlns"} and xmlns:p="u" as {Space:"xmlns", Local:"p"}; the library also takes the historical
;; p:xmlns="u" for one), and the order-preserving selection of the others.
(define-fun isNsDecl ((a S_xml_Attr)) Bool
  (or (= (f_S_xml_Name_Space (f_S_xml_Attr_Name a)) "xmlns") (= (f_S_xml_Name_Local (f_S_xml_Attr_Name a)) "xmlns")))
(define-sort AH_S_xml_Attr () (Array Int (Array Int S_xml_Attr)))
;; heapfn: naPre
(declare-fun naPre (AH_S_xml_Attr Slice Int) Int)      ; number of ordinary attributes among the first k
(assert (forall ((h AH_S_xml_Attr) (s Slice)) (! (= (naPre h s 0) 0) :pattern ((naPre h s 0)))))
(assert (forall ((h AH_S_xml_Attr) (s Slice) (k Int)) (! (=> (and (<= 0 k) (< k (slen_ s)))
   (= (naPre h s (+ k 1)) (+ (naPre h s k) (ite (isNsDecl (at_S_xml_Attr h s k)) 0 1)))) :pattern ((naPre h s (+ k 1))) :pattern ((naPre h s k) (at_S_xml_Attr h s k)))))
(assert (forall ((h AH_S_xml_Attr) (s Slice) (k Int)) (! (=> (and (<= 0 k) (<= k (slen_ s))) (and (<= 0 (naPre h s k)) (<= (naPre h s k) k))) :pattern ((naPre h s k)))))
;; LEMMA (assumed, by induction on k - j): naPre is monotone in the prefix length
(assert (forall ((h AH_S_xml_Attr) (s Slice) (j Int) (k Int)) (! (=> (and (<= 0 j) (<= j k) (<= k (slen_ s))) (<= (naPre h s j) (naPre h s k))) :pattern ((naPre h s j) (naPre h s k)))))
;; heapfn: nnPre
(declare-fun nnPre (AH_S_xml_Attr Slice Int) Int)      ; number of namespace declarations among the first k
(assert (forall ((h AH_S_xml_Attr) (s Slice)) (! (= (nnPre h s 0) 0) :pattern ((nnPre h s 0)))))
(assert (forall ((h AH_S_xml_Attr) (s Slice) (k Int)) (! (=> (and (<= 0 k) (< k (slen_ s)))
   (= (nnPre h s (+ k 1)) (+ (nnPre h s k) (ite (isNsDecl (at_S_xml_Attr h s k)) 1 0)))) :pattern ((nnPre h s (+ k 1))) :pattern ((nnPre h s k) (at_S_xml_Attr h s k)))))
(assert (forall ((h AH_S_xml_Attr) (s Slice) (k Int)) (! (=> (and (<= 0 k) (<= k (slen_ s))) (and (<= 0 (nnPre h s k)) (<= (nnPre h s k) k))) :pattern ((nnPre h s k)))))
(assert (forall ((h AH_S_xml_Attr) (s Slice) (j Int) (k Int)) (! (=> (and (<= 0 j) (<= j k) (<= k (slen_ s))) (<= (nnPre h s j) (nnPre h s k))) :pattern ((nnPre h s j) (nnPre h s k)))))
;; the prefix a declaration binds: "" for xmlns="u", p for xmlns:p="u" (and for the historical p:xmlns="u")
(define-fun declPrefix ((a S_xml_Attr)) Str
  (ite (and (= (f_S_xml_Name_Space (f_S_xml_Attr_Name a)) "") (= (f_S_xml_Name_Local (f_S_xml_Attr_Name a)) "xmlns")) str_empty
  (ite (= (f_S_xml_Name_Space (f_S_xml_Attr_Name a)) "xmlns") (f_S_xml_Name_Local (f_S_xml_Attr_Name a)) (f_S_xml_Name_Space (f_S_xml_Attr_Name a)))))
