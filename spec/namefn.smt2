;; namefn: expanded names of nodes as the node functions of XPath 1.0 section 4.1 report them
;; requires: selseq strval nodekinds values
(define-fun localOf ((c Cursor)) Str
  (ite (namedNode c) (nodeLocal (nodeOf c))
  (ite (= (ckind c) 6) (piTarget (nodeOf c))
  (ite (= (ckind c) 3) (nsPrefix (nodeOf c)) str_empty))))
(define-fun uriOf ((c Cursor)) Str (ite (namedNode c) (nodeSpace (nodeOf c)) str_empty))
(define-fun nameOf ((c Cursor)) Str (ite (= (uriOf c) str_empty) (localOf c) (bracedName (uriOf c) (localOf c))))
;; what name()/local-name()/namespace-uri() return for a node-set: the fact about its first node in document order
(define-fun localOfSeq ((q NSeq)) Str (ite (= (qlen q) 0) str_empty (localOf (qfirst q))))
(define-fun uriOfSeq ((q NSeq)) Str (ite (= (qlen q) 0) str_empty (uriOf (qfirst q))))
(define-fun nameOfSeq ((q NSeq)) Str (ite (= (qlen q) 0) str_empty (nameOf (qfirst q))))
;; ----- attribute lookup by expanded name (store.GetAttribute): the first attribute with that name -----
(define-fun attrNamed ((a Cursor) (sp Str) (lo Str)) Bool (and (= (nodeSpace (nodeOf a)) sp) (= (nodeLocal (nodeOf a)) lo)))
(declare-fun attrIdx (Cursor Str Str) Int)
(assert (forall ((c Cursor) (sp Str) (lo Str)) (! (and (<= (- 1) (attrIdx c sp lo)) (< (attrIdx c sp lo) (nat c))
    (=> (>= (attrIdx c sp lo) 0) (attrNamed (attrAt c (attrIdx c sp lo)) sp lo))) :pattern ((attrIdx c sp lo)))))
(assert (forall ((c Cursor) (sp Str) (lo Str) (j Int)) (! (=> (and (<= 0 j) (< j (nat c)) (or (< (attrIdx c sp lo) 0) (< j (attrIdx c sp lo)))) (not (attrNamed (attrAt c j) sp lo)))
    :pattern ((attrIdx c sp lo) (attrAt c j)))))
;; ----- lang(): the nearest attribute (sp,lo) on the ancestor-or-self chain up to, not including, the root -----
(declare-fun nlHas (Cursor Str Str) Bool)
(declare-fun nlVal (Cursor Str Str) Str)
(assert (forall ((c Cursor) (sp Str) (lo Str)) (! (=> (= c root) (not (nlHas c sp lo))) :pattern ((nlHas c sp lo)))))
(assert (forall ((c Cursor) (sp Str) (lo Str)) (! (=> (and (not (= c Cursor_nil)) (not (= c root)))
    (ite (>= (attrIdx c sp lo) 0)
         (and (nlHas c sp lo) (= (nlVal c sp lo) (attrValue (nodeOf (attrAt c (attrIdx c sp lo))))))
         (and (= (nlHas c sp lo) (nlHas (parent c) sp lo)) (= (nlVal c sp lo) (nlVal (parent c) sp lo)))))
    :pattern ((nlHas c sp lo)) :pattern ((nlVal c sp lo)))))
;; the property's starting point: the node itself for an element, its parent otherwise
(define-fun langStart ((c Cursor)) Cursor (ite (= (ckind c) 1) c (parent c)))
;; language-range match of XPath 1.0 section 4.3: equal, or a prefix followed by '-', ignoring ASCII case
(define-fun asciiLow ((b Int)) Int (ite (and (<= 65 b) (<= b 90)) (+ b 32) b))
(declare-fun langMatch (Str Str) Bool)
(declare-fun langDiff (Str Str) Int)
(assert (forall ((l Str) (t Str)) (! (= (langMatch l t)
    (and (<= (slen l) (slen t))
         (not (and (<= 0 (langDiff l t)) (< (langDiff l t) (slen l)) (not (= (asciiLow (sbyte l (langDiff l t))) (asciiLow (sbyte t (langDiff l t)))))))
         (or (= (slen t) (slen l)) (= (sbyte t (slen l)) 45)))) :pattern ((langMatch l t)))))
(assert (forall ((l Str) (t Str) (i Int)) (! (=> (and (langMatch l t) (<= 0 i) (< i (slen l))) (= (asciiLow (sbyte l i)) (asciiLow (sbyte t i)))) :pattern ((langMatch l t) (sbyte l i)))))
