;; selseq: the XPath operations on node-sets as functions on abstract node sequences: axes (2.2), node tests (2.3),
;; union (3.3), document-order copy.  Each is characterised by its member set and its direction.
;; requires: seqcanon axes nodeset strval
;; membership in a heap slice and in its abstract sequence are the same thing
(assert (forall ((h AH_Cursor) (s Slice) (n Cursor)) (! (= (qmem (seqOf h s) n) (mem h s n)) :pattern ((qmem (seqOf h s) n)) :pattern ((mem h s n) (seqOf h s)))))
;; ---- axes (2.2): 0 child 1 attribute 2 ancestor 3 ancestor-or-self 4 descendant 5 descendant-or-self 6 following
;;      7 following-sibling 8 namespace 9 parent 10 preceding 11 preceding-sibling 12 self
(define-fun axisRel ((x Int) (c Cursor) (n Cursor)) Bool
  (ite (= x 0) (isChild c n) (ite (= x 1) (isAttrOf c n) (ite (= x 2) (isAnc c n) (ite (= x 3) (isAncOrSelf c n)
  (ite (= x 4) (isDesc c n) (ite (= x 5) (isDescOrSelf c n) (ite (= x 6) (isFoll c n) (ite (= x 7) (isFollSib c n)
  (ite (= x 8) (isNsOf c n) (ite (= x 9) (isParentOf c n) (ite (= x 10) (isPrec c n) (ite (= x 11) (isPrecSib c n) (= n c))))))))))))))
(define-fun axisRev ((x Int)) Bool (or (= x 2) (= x 3) (= x 10) (= x 11)))
(define-fun axisCode ((s Str)) Int
  (ite (= s "child") 0 (ite (= s "attribute") 1 (ite (= s "ancestor") 2 (ite (= s "ancestor-or-self") 3 (ite (= s "descendant") 4
  (ite (= s "descendant-or-self") 5 (ite (= s "following") 6 (ite (= s "following-sibling") 7 (ite (= s "namespace") 8
  (ite (= s "parent") 9 (ite (= s "preceding") 10 (ite (= s "preceding-sibling") 11 12)))))))))))))
;; selSeq(x, q): the nodes on axis x of some node of q, each once; reverse axes in reverse document order, others ascending
(declare-fun selSeq (Int NSeq) NSeq)
(declare-fun selw (Int NSeq Cursor) Int)
(assert (forall ((x Int) (q NSeq)) (! (=> (and (<= 0 x) (< x 12) (qnodes q))
   (and (qnodes (selSeq x q)) (ite (axisRev x) (sdescq (selSeq x q)) (sascq (selSeq x q))))) :pattern ((selSeq x q)))))
(assert (forall ((x Int) (q NSeq) (n Cursor)) (! (=> (and (<= 0 x) (< x 12) (qmem (selSeq x q) n))
   (and (<= 0 (selw x q n)) (< (selw x q n) (qlen q)) (axisRel x (qat q (selw x q n)) n))) :pattern ((qmem (selSeq x q) n)))))
(assert (forall ((x Int) (q NSeq) (k Int) (n Cursor)) (! (=> (and (<= 0 x) (< x 12) (<= 0 k) (< k (qlen q)) (axisRel x (qat q k) n) (not (= n Cursor_nil)))
   (qmem (selSeq x q) n)) :pattern ((qat q k) (qmem (selSeq x q) n)))))
(assert (forall ((q NSeq)) (! (= (selSeq 12 q) q) :pattern ((selSeq 12 q)))))
;; filterSeq(t, a1, a2, q): the order-preserving sub-sequence of q of the nodes that pass node test t (2.3)
;;   t: 0 node() 1 text() 2 comment() 3 processing-instruction() 4 processing-instruction(lit a1)
;;      5 *  6 ns:* (uri a1)  7 *:local (a2)  8 ns:local (uri a1, local a2)
;;      9 local (a2) in no namespace; on the namespace axis the library's rule: namespace nodes whose URI is a1
;;      any other code: nothing passes
(define-fun namedNode ((n Cursor)) Bool (or (= (ckind n) 1) (= (ckind n) 2)))
(define-fun nodeTest ((t Int) (a1 Str) (a2 Str) (n Cursor)) Bool
  (ite (= t 0) true (ite (= t 1) (= (ckind n) 4) (ite (= t 2) (= (ckind n) 5) (ite (= t 3) (= (ckind n) 6)
  (ite (= t 4) (and (= (ckind n) 6) (= (piTarget (nodeOf n)) a1))
  (ite (= t 5) (or (namedNode n) (= (ckind n) 3))
  (ite (= t 6) (and (namedNode n) (= (nodeSpace (nodeOf n)) a1))
  (ite (= t 7) (and (namedNode n) (= (nodeLocal (nodeOf n)) a2))
  (ite (= t 8) (and (namedNode n) (= (nodeSpace (nodeOf n)) a1) (= (nodeLocal (nodeOf n)) a2))
  (ite (= t 9) (or (and (namedNode n) (= (nodeSpace (nodeOf n)) str_empty) (= (nodeLocal (nodeOf n)) a2))
                   (and (= (ckind n) 3) (= (nsValue (nodeOf n)) a1)))
       false)))))))))))
(declare-fun filterSeq (Int Str Str NSeq) NSeq)
(assert (forall ((t Int) (a1 Str) (a2 Str) (q NSeq)) (! (and (=> (qnodes q) (qnodes (filterSeq t a1 a2 q))) (=> (sascq q) (sascq (filterSeq t a1 a2 q))) (=> (sdescq q) (sdescq (filterSeq t a1 a2 q))))
   :pattern ((filterSeq t a1 a2 q)))))
(assert (forall ((t Int) (a1 Str) (a2 Str) (q NSeq) (n Cursor)) (! (= (qmem (filterSeq t a1 a2 q) n) (and (qmem q n) (nodeTest t a1 a2 n)))
   :pattern ((qmem (filterSeq t a1 a2 q) n)))))
;; ascending union of two node sequences (3.3)
(declare-fun unionSeq (NSeq NSeq) NSeq)
(assert (forall ((a NSeq) (b NSeq)) (! (and (sascq (unionSeq a b)) (=> (and (qnodes a) (qnodes b)) (qnodes (unionSeq a b)))) :pattern ((unionSeq a b)))))
(assert (forall ((a NSeq) (b NSeq) (n Cursor)) (! (= (qmem (unionSeq a b) n) (or (qmem a n) (qmem b n))) :pattern ((qmem (unionSeq a b) n)))))
;; ascending copy of a node sequence (document order)
(declare-fun ascSeq (NSeq) NSeq)
(assert (forall ((a NSeq)) (! (and (sascq (ascSeq a)) (=> (qnodes a) (qnodes (ascSeq a)))) :pattern ((ascSeq a)))))
(assert (forall ((a NSeq) (n Cursor)) (! (= (qmem (ascSeq a) n) (qmem a n)) :pattern ((qmem (ascSeq a) n)))))
