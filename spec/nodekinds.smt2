;; nodekinds: how the Go interfaces of package node relate to the seven XPath node kinds.
;; A-NODE: a node value implements exactly the interfaces of its kind (root values implement none of them).
;; requires: tree
(define-fun isAnyNode ((n Node)) Bool true)
(define-fun isNamed ((n Node)) Bool (or (= (kind n) 1) (= (kind n) 2)))
(define-fun isElement ((n Node)) Bool (or (= (kind n) 1) (= (kind n) 2)))
(define-fun isAttr ((n Node)) Bool (= (kind n) 2))
(define-fun isNS ((n Node)) Bool (= (kind n) 3))
(define-fun isText ((n Node)) Bool (= (kind n) 4))
(define-fun isComment ((n Node)) Bool (= (kind n) 5))
(define-fun isPI ((n Node)) Bool (= (kind n) 6))
