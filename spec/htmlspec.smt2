;; htmlspec: shape of the trees golang.org/x/net/html.Parse returns (A-HTML, assumed about the heap at the entry of
;; every function that walks them; the adapter never writes html.Node objects - proved by its frame):
;; a document node has a first child and that child is not a document node; a doctype node has a next sibling, which
;; is neither a doctype nor a document node.  NodeType: 0 Error, 1 Text, 2 Document, 3 Element, 4 Comment, 5 Doctype, 6 Raw.
(define-fun hrank ((t Int)) Int (ite (= t 2) 2 (ite (= t 5) 1 0)))
(assert (forall ((o Int)) (! (let ((n (select H_S_html_Node!0 o)))
   (and (=> (= (f_S_html_Node_Type n) 2)
            (and (not (= (f_S_html_Node_FirstChild n) 0)) (not (= (f_S_html_Node_Type (select H_S_html_Node!0 (f_S_html_Node_FirstChild n))) 2))))
        (=> (= (f_S_html_Node_Type n) 5)
            (and (not (= (f_S_html_Node_NextSibling n) 0))
                 (not (= (f_S_html_Node_Type (select H_S_html_Node!0 (f_S_html_Node_NextSibling n))) 5))
                 (not (= (f_S_html_Node_Type (select H_S_html_Node!0 (f_S_html_Node_NextSibling n))) 2))))))
   :pattern ((select H_S_html_Node!0 o)))))
