;; treelemmas: consequences of the tree axioms, proved once per run from module axes (and tree), then used as axioms
;; requires: axes
;; lemma: anc-step props=C01
(assert (forall ((c Cursor) (n Cursor)) (! (=> (and (not (= c Cursor_nil)) (not (= c root)) (not (= n Cursor_nil)) (isAnc c n) (trig (cidx (parent c) n))) (isAncOrSelf (parent c) n)) :pattern ((parent c) (last n)))))
;; lemma: anc-step-rev props=C01
(assert (forall ((c Cursor) (n Cursor)) (! (=> (and (not (= c Cursor_nil)) (not (= c root)) (not (= n Cursor_nil)) (isAncOrSelf (parent c) n)) (isAnc c n)) :pattern ((parent c) (last n)))))
