;; htmlattr: the attribute mapping of ReadHtml (property C17)
;; requires: htmllocal
;; ----- HTML attributes: xmlns declarations are dropped, prefixes are stripped -----
(define-sort AH_S_html_Attribute () (Array Int (Array Int S_html_Attribute)))
;; a namespace declaration is `xmlns`, `xmlns:p`, or - in foreign content, where the HTML5 "adjust foreign attributes" step
;; splits the name - an attribute whose namespace is "xmlns" (xmlns:xlink is stored as namespace "xmlns", key "xlink")
(define-fun isHtmlDecl ((a S_html_Attribute)) Bool (or (= (f_S_html_Attribute_Key a) "xmlns") (= (f_S_html_Attribute_Namespace a) "xmlns") (shasPrefix (f_S_html_Attribute_Key a) "xmlns:")))
;; heapfn: haPre
(declare-fun haPre (AH_S_html_Attribute Slice Int) Int)
(assert (forall ((h AH_S_html_Attribute) (s Slice)) (! (= (haPre h s 0) 0) :pattern ((haPre h s 0)))))
(assert (forall ((h AH_S_html_Attribute) (s Slice) (k Int)) (! (=> (and (<= 0 k) (< k (slen_ s)))
   (= (haPre h s (+ k 1)) (+ (haPre h s k) (ite (isHtmlDecl (at_S_html_Attribute h s k)) 0 1)))) :pattern ((haPre h s (+ k 1))) :pattern ((haPre h s k) (at_S_html_Attribute h s k)))))
(assert (forall ((h AH_S_html_Attribute) (s Slice) (k Int)) (! (=> (and (<= 0 k) (<= k (slen_ s))) (and (<= 0 (haPre h s k)) (<= (haPre h s k) k))) :pattern ((haPre h s k)))))
(assert (forall ((h AH_S_html_Attribute) (s Slice) (j Int) (k Int)) (! (=> (and (<= 0 j) (<= j k) (<= k (slen_ s))) (<= (haPre h s j) (haPre h s k))) :pattern ((haPre h s j) (haPre h s k)))))
