;; htmllocal: the local part of an HTML element or attribute name (the text after the first colon, if any)
;; requires: strfn
(define-fun htmlLocal ((s Str)) Str (ite (>= (sindex s ":") 0) (ssub s (+ (sindex s ":") 1) (slen s)) s))
