;; fmtg: strconv.FormatFloat(f, 'g', -1, 64) as a function (assumed, standard library): the shortest decimal numeral,
;; in %e form for large exponents, that reads back to the same double.  C16 states the rendering of JSON numbers in
;; exactly these terms, so the adapter is specified to return this numeral and nothing else.
(declare-fun fmtg (F64) Str)
