;; axes: the thirteen XPath 1.0 axes (section 2.2) as relations axis(c, n) "n is on the axis of context node c"
;; requires: nodeset
(define-fun isChild ((c Cursor) (n Cursor)) Bool (and (not (= n Cursor_nil)) (not (= n root)) (treeNode n) (= (parent n) c)))
(define-fun isAttrOf ((c Cursor) (n Cursor)) Bool (and (not (= n Cursor_nil)) (= (ckind n) 2) (= (parent n) c)))
(define-fun isNsOf ((c Cursor) (n Cursor)) Bool (and (not (= n Cursor_nil)) (= (ckind n) 3) (= (parent n) c)))
(define-fun isParentOf ((c Cursor) (n Cursor)) Bool (and (not (= c root)) (= n (parent c))))
(define-fun isDesc ((c Cursor) (n Cursor)) Bool (and (not (= n Cursor_nil)) (treeNode n) (< (pos c) (pos n)) (<= (pos n) (last c))))
(define-fun isDescOrSelf ((c Cursor) (n Cursor)) Bool (or (= n c) (isDesc c n)))
(define-fun isAnc ((c Cursor) (n Cursor)) Bool (and (not (= n Cursor_nil)) (< (pos n) (pos c)) (<= (pos c) (last n))))
(define-fun isAncOrSelf ((c Cursor) (n Cursor)) Bool (or (= n c) (isAnc c n)))
(define-fun isFoll ((c Cursor) (n Cursor)) Bool (and (not (= n Cursor_nil)) (treeNode n) (> (pos n) (last c))))
(define-fun isPrec ((c Cursor) (n Cursor)) Bool (and (not (= n Cursor_nil)) (treeNode n) (< (last n) (pos c))))
(define-fun isFollSib ((c Cursor) (n Cursor)) Bool
  (and (not (= n Cursor_nil)) (treeNode c) (not (= c root)) (treeNode n) (not (= n root)) (= (parent n) (parent c)) (> (pos n) (pos c))))
(define-fun isPrecSib ((c Cursor) (n Cursor)) Bool
  (and (not (= n Cursor_nil)) (treeNode c) (not (= c root)) (treeNode n) (not (= n root)) (= (parent n) (parent c)) (< (pos n) (pos c))))
