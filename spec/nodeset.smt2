;; nodeset: predicates over node-sets (slices of cursors read through a heap)
;; requires: tree
(define-fun nodes ((h AH_Cursor) (s Slice)) Bool
  (forall ((k Int)) (! (=> (and (<= 0 k) (< k (slen_ s))) (not (= (at_Cursor h s k) Cursor_nil))) :pattern ((at_Cursor h s k)))))
(define-fun asc ((h AH_Cursor) (s Slice)) Bool
  (forall ((j Int) (k Int)) (! (=> (and (<= 0 j) (< j k) (< k (slen_ s))) (<= (pos (at_Cursor h s j)) (pos (at_Cursor h s k)))) :pattern ((at_Cursor h s j) (at_Cursor h s k)))))
(define-fun desc ((h AH_Cursor) (s Slice)) Bool
  (forall ((j Int) (k Int)) (! (=> (and (<= 0 j) (< j k) (< k (slen_ s))) (>= (pos (at_Cursor h s j)) (pos (at_Cursor h s k)))) :pattern ((at_Cursor h s j) (at_Cursor h s k)))))
(define-fun sasc ((h AH_Cursor) (s Slice)) Bool
  (forall ((j Int) (k Int)) (! (=> (and (<= 0 j) (< j k) (< k (slen_ s))) (< (pos (at_Cursor h s j)) (pos (at_Cursor h s k)))) :pattern ((at_Cursor h s j) (at_Cursor h s k)))))
(define-fun sdesc ((h AH_Cursor) (s Slice)) Bool
  (forall ((j Int) (k Int)) (! (=> (and (<= 0 j) (< j k) (< k (slen_ s))) (> (pos (at_Cursor h s j)) (pos (at_Cursor h s k)))) :pattern ((at_Cursor h s j) (at_Cursor h s k)))))
;; membership with an explicit index witness
;; heapfn: mem
(declare-fun mem (AH_Cursor Slice Cursor) Bool)
(declare-fun memw (AH_Cursor Slice Cursor) Int)
(assert (forall ((h AH_Cursor) (s Slice) (n Cursor)) (! (=> (mem h s n) (and (<= 0 (memw h s n)) (< (memw h s n) (slen_ s)) (= (at_Cursor h s (memw h s n)) n))) :pattern ((mem h s n)))))
(assert (forall ((h AH_Cursor) (s Slice) (k Int)) (! (=> (and (<= 0 k) (< k (slen_ s))) (mem h s (at_Cursor h s k))) :pattern ((at_Cursor h s k)))))
