;; cmp: XPath 1.0 section 3.4 comparisons on abstract values.  op: 0 =, 1 !=, 2 <, 3 <=, 4 >, 5 >=
;; requires: values
(define-fun cmpNum ((op Int) (x F64) (y F64)) Bool
  (ite (= op 0) (fp.eq x y) (ite (= op 1) (not (fp.eq x y)) (ite (= op 2) (fp.lt x y) (ite (= op 3) (fp.leq x y) (ite (= op 4) (fp.gt x y) (fp.geq x y)))))))
(define-fun cmpStr ((op Int) (x Str) (y Str)) Bool
  (ite (= op 0) (= x y) (ite (= op 1) (not (= x y)) (cmpNum op (xpnum x) (xpnum y)))))
(define-fun cmpBool ((op Int) (x Bool) (y Bool)) Bool
  (ite (= op 0) (= x y) (ite (= op 1) (not (= x y))
    (cmpNum op (ite x ((_ to_fp 11 53) RNE 1.0) ((_ to_fp 11 53) RNE 0.0)) (ite y ((_ to_fp 11 53) RNE 1.0) ((_ to_fp 11 53) RNE 0.0))))))
;; scalar against scalar: booleans first, then numbers, then strings for = and !=; always numbers for the relational four
(define-fun cmpScalar ((op Int) (a AVal) (b AVal)) Bool
  (ite (>= op 2) (cmpNum op (atoNum a) (atoNum b))
  (ite (or ((_ is ABool) a) ((_ is ABool) b)) (cmpBool op (atoBool a) (atoBool b))
  (ite (or ((_ is ANum) a) ((_ is ANum) b)) (cmpNum op (atoNum a) (atoNum b))
       (cmpStr op (atoStr a) (atoStr b))))))
;; a node (through its string-value) against a scalar that is not a boolean
(define-fun cmpNodeScalar ((op Int) (n Cursor) (b AVal)) Bool
  (ite ((_ is ANum) b) (cmpNum op (xpnum (strval n)) (anum b)) (cmpStr op (strval n) (astr b))))
(define-fun cmpScalarNode ((op Int) (a AVal) (n Cursor)) Bool
  (ite ((_ is ANum) a) (cmpNum op (anum a) (xpnum (strval n))) (cmpStr op (astr a) (strval n))))
(define-fun xpcmp ((op Int) (a AVal) (b AVal)) Bool
  (ite (and ((_ is ASet) a) ((_ is ASet) b))
       (exists ((i Int) (j Int)) (and (<= 0 i) (< i (qlen (aset a))) (<= 0 j) (< j (qlen (aset b))) (cmpStr op (strval (qat (aset a) i)) (strval (qat (aset b) j)))))
  (ite ((_ is ASet) a)
       (ite ((_ is ABool) b) (cmpBool op (atoBool a) (abool b))
            (exists ((i Int)) (and (<= 0 i) (< i (qlen (aset a))) (cmpNodeScalar op (qat (aset a) i) b))))
  (ite ((_ is ASet) b)
       (ite ((_ is ABool) a) (cmpBool op (abool a) (atoBool b))
            (exists ((j Int)) (and (<= 0 j) (< j (qlen (aset b))) (cmpScalarNode op a (qat (aset b) j)))))
       (cmpScalar op a b)))))
