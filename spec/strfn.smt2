;; strfn: specification functions for the XPath string functions (section 4.2) over the uninterpreted string model
;; requires: values
(declare-fun shasPrefix (Str Str) Bool)   ; strings.HasPrefix; on valid UTF-8 the byte prefix is the character prefix
(declare-fun sindex (Str Str) Int)        ; strings.Index: byte index of the first occurrence, -1 if none
(declare-fun runeCount (Str) Int)         ; utf8.RuneCountInString: number of characters of valid UTF-8
(assert (forall ((s Str) (t Str)) (! (and (<= (- 1) (sindex s t)) (=> (>= (sindex s t) 0) (<= (+ (sindex s t) (slen t)) (slen s)))) :pattern ((sindex s t)))))
(assert (forall ((s Str)) (! (and (<= 0 (runeCount s)) (<= (runeCount s) (slen s))) :pattern ((runeCount s)))))
;; concat: left fold of the string() of the first n arguments
;; heapfn: catAll
(declare-fun catAll (AH_Val Slice Int AH_Cursor) Str)
(assert (forall ((hv AH_Val) (hc AH_Cursor) (s Slice)) (! (= (catAll hv s 0 hc) str_empty) :pattern ((catAll hv s 0 hc)))))
(assert (forall ((hv AH_Val) (hc AH_Cursor) (s Slice) (k Int)) (! (=> (and (<= 0 k) (< k (slen_ s)))
   (= (catAll hv s (+ k 1) hc) (cat (catAll hv s k hc) (toStr hc (at_Val hv s k))))) :pattern ((catAll hv s (+ k 1) hc)) :pattern ((catAll hv s k hc) (at_Val hv s k)))))
