;; strfn: specification functions for the XPath string functions (section 4.2) over the uninterpreted string model
;; requires: values
(declare-fun shasPrefix (Str Str) Bool)   ; strings.HasPrefix; on valid UTF-8 the byte prefix is the character prefix
(declare-fun sindex (Str Str) Int)        ; strings.Index: byte index of the first occurrence, -1 if none
(assert (forall ((s Str) (t Str)) (! (and (<= (- 1) (sindex s t)) (=> (>= (sindex s t) 0) (<= (+ (sindex s t) (slen t)) (slen s)))) :pattern ((sindex s t)))))
;; concat: left fold of the string() of the first n arguments
;; heapfn: catAll
(declare-fun catAll (AH_Val Slice Int AH_Cursor) Str)
(assert (forall ((hv AH_Val) (hc AH_Cursor) (s Slice)) (! (= (catAll hv s 0 hc) str_empty) :pattern ((catAll hv s 0 hc)))))
(assert (forall ((hv AH_Val) (hc AH_Cursor) (s Slice) (k Int)) (! (=> (and (<= 0 k) (< k (slen_ s)))
   (= (catAll hv s (+ k 1) hc) (cat (catAll hv s k hc) (toStr hc (at_Val hv s k))))) :pattern ((catAll hv s (+ k 1) hc)) :pattern ((catAll hv s k hc) (at_Val hv s k)))))
;; substring (4.2): the characters at the positions q (1-based) with first <= q < last, compared as IEEE doubles.
;; subPre(s, k, first, last): what the first k characters of s contribute.
(declare-fun subPre (Str Int F64 F64) Str)
(assert (forall ((s Str) (f F64) (l F64)) (! (= (subPre s 0 f l) str_empty) :pattern ((subPre s 0 f l)))))
(assert (forall ((s Str) (k Int) (f F64) (l F64)) (! (=> (and (<= 0 k) (< k (runeCount s)))
   (= (subPre s (+ k 1) f l) (cat (subPre s k f l) (ite (and (fp.leq f (i2f (+ k 1))) (fp.lt (i2f (+ k 1)) l)) (runeStr (runeAt s k)) str_empty))))
   :pattern ((subPre s (+ k 1) f l)) :pattern ((subPre s k f l) (runeAt s k)))))
;; only IEEE comparisons look at the bounds: bounds that compare equal (or are both NaN) select the same characters
(assert (forall ((s Str) (k Int) (f F64) (l F64) (f2 F64) (l2 F64)) (! (=> (and (or (fp.eq f f2) (and (fp.isNaN f) (fp.isNaN f2))) (or (fp.eq l l2) (and (fp.isNaN l) (fp.isNaN l2))))
   (= (subPre s k f l) (subPre s k f2 l2))) :pattern ((subPre s k f l) (subPre s k f2 l2)))))
;; translate (4.2): every character of s is mapped on its own - by its FIRST occurrence in `from` to the character of
;; `to` at the same position, removed when `to` is shorter, kept when it does not occur in `from`.
(declare-fun firstIdx (Str Int) Int)      ; index of the first occurrence of code point r among the characters of s, or -1
(assert (forall ((s Str) (r Int)) (! (and (<= (- 1) (firstIdx s r)) (< (firstIdx s r) (runeCount s))
    (=> (>= (firstIdx s r) 0) (= (runeAt s (firstIdx s r)) r))) :pattern ((firstIdx s r)))))
(assert (forall ((s Str) (r Int) (j Int)) (! (=> (and (<= 0 j) (< j (runeCount s)) (or (< (firstIdx s r) 0) (< j (firstIdx s r)))) (not (= (runeAt s j) r)))
    :pattern ((firstIdx s r) (runeAt s j)))))
(define-fun trChar ((r Int) (from Str) (to Str)) Str
  (ite (< (firstIdx from r) 0) (runeStr r) (ite (< (firstIdx from r) (runeCount to)) (runeStr (runeAt to (firstIdx from r))) str_empty)))
(declare-fun trPre (Str Int Str Str) Str)
(assert (forall ((s Str) (f Str) (t Str)) (! (= (trPre s 0 f t) str_empty) :pattern ((trPre s 0 f t)))))
(assert (forall ((s Str) (k Int) (f Str) (t Str)) (! (=> (and (<= 0 k) (< k (runeCount s)))
   (= (trPre s (+ k 1) f t) (cat (trPre s k f t) (trChar (runeAt s k) f t)))) :pattern ((trPre s (+ k 1) f t)) :pattern ((trPre s k f t) (runeAt s k)))))
;; normalize-space (4.2): the bytes of s that are not XML white space (#x20 #x9 #xD #xA), where every maximal run of
;; white space that lies between two such bytes is replaced by ONE space and leading/trailing runs disappear.
;; nsPre(s, i): what the first i bytes contribute - a byte that is not white space is preceded by a single space
;; exactly when white space precedes it and something was already written.
(declare-fun byteStr (Int) Str)
(assert (forall ((c Int)) (! (= (slen (byteStr c)) 1) :pattern ((byteStr c)))))
(define-fun xmlSp ((c Int)) Bool (or (= c 32) (= c 9) (= c 13) (= c 10)))
(declare-fun nsPre (Str Int) Str)
(assert (forall ((s Str)) (! (= (nsPre s 0) str_empty) :pattern ((nsPre s 0)))))
(assert (forall ((s Str) (i Int)) (! (=> (and (<= 0 i) (< i (slen s)))
   (= (nsPre s (+ i 1))
      (ite (xmlSp (sbyte s i)) (nsPre s i)
           (cat (cat (nsPre s i) (ite (and (> i 0) (xmlSp (sbyte s (- i 1))) (not (= (nsPre s i) str_empty))) (byteStr 32) str_empty)) (byteStr (sbyte s i))))))
   :pattern ((nsPre s (+ i 1))) :pattern ((nsPre s i) (sbyte s i)))))
