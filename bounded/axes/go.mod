module bounded/axes

go 1.20

require github.com/ChrisTrenkamp/xsel v0.0.0

require (
	github.com/goccmack/goutil v1.2.3 // indirect
	github.com/pkg/errors v0.9.1 // indirect
	golang.org/x/net v0.19.0 // indirect
	golang.org/x/text v0.14.0 // indirect
)

replace github.com/ChrisTrenkamp/xsel => /repo
