// Probe for a part of property C01 that the Sem specification takes over from the code instead of from XPath 1.0:
// the principal node type of an axis (section 2.3).  `*` and name tests select nodes of the principal node type only -
// attributes on the attribute axis, namespace nodes on the namespace axis, ELEMENTS on every other axis - so a step
// over self / ancestor-or-self / descendant-or-self from an attribute (or namespace) context node must not return that
// node for `*` or a name test.  NOT a proof; labelled "bounded" in the evidence.
package main

import (
	"encoding/json"
	"flag"
	"fmt"
	"os"
	"strings"

	"github.com/ChrisTrenkamp/xsel"
)

const doc = `<r id="1" xmlns:p="urn:p"><id k="2">x</id><p:e p:k="3"/></r>`

type failure struct {
	Expr string `json:"expr"`
	Want int    `json:"want"`
	Got  int    `json:"got"`
}

func main() {
	outPath := flag.String("o", "", "write the JSON summary here")
	flag.Int("n", 0, "unused")
	knownFlag := flag.String("known", "", "comma-separated defect classes listed in known-findings.json")
	flag.Parse()
	cur, err := xsel.ReadXml(strings.NewReader(doc))
	if err != nil {
		panic(err)
	}
	// expression -> number of nodes XPath 1.0 selects
	probes := []struct {
		e    string
		want int
		cls  string
	}{
		{"/r/@id/self::*", 0, "p"}, {"/r/@id/self::id", 0, "p"}, {"/r/@id/self::node()", 1, ""}, {"//@*/self::*", 0, "p"},
		{"/r/@id/ancestor-or-self::*", 1, "p"}, {"/r/@id/ancestor-or-self::id", 0, "p"}, {"/r/@id/ancestor-or-self::node()", 3, ""},
		{"/r/@id/descendant-or-self::*", 0, "p"}, {"/r/@id/descendant-or-self::node()", 1, ""},
		{"/r/id/@k/ancestor-or-self::*", 2, "p"}, {"/r/p:e/@p:k/self::p:k", 0, "p"}, {"/r/p:e/@p:k/self::p:*", 0, "p"},
		{"/r/namespace::p/self::*", 0, "p"}, {"/r/namespace::p/self::node()", 1, ""}, {"/r/namespace::p/ancestor-or-self::*", 1, "p"},
		{"/r/@*", 1, ""}, {"/r/attribute::*", 1, ""}, {"/r/attribute::id", 1, ""}, {"/r/id/self::id", 1, ""}, {"/r/id/self::*", 1, ""},
		{"/r/child::*", 2, ""}, {"/r/descendant-or-self::*", 3, ""}, {"/r/namespace::*", 2, ""}, {"//@*/..", 3, ""}, {"/r/id/@k/parent::*", 1, ""},
	}
	var fails, known []failure
	listed := strings.Contains(","+*knownFlag+",", ",principal-node-type-on-self-axes,")
	for _, p := range probes {
		g := xsel.MustBuildExpr(p.e)
		ns, err := xsel.ExecAsNodeset(cur, &g, xsel.WithNS("p", "urn:p"))
		got := len(ns)
		if err != nil {
			got = -1
		}
		if got != p.want {
			f := failure{p.e, p.want, got}
			if p.cls == "p" && listed {
				known = append(known, f)
			} else {
				fails = append(fails, f)
			}
		}
	}
	classes := map[string]interface{}{}
	if len(known) > 0 || (!listed && len(fails) > 0) {
		w := "/r/@id/self::*"
		n := len(known)
		if n == 0 {
			for _, f := range fails {
				n++
				_ = f
			}
		}
		classes["principal-node-type-on-self-axes"] = map[string]interface{}{"count": n, "witness": w, "listed_as_known_finding": listed}
	}
	sum := map[string]interface{}{
		"what":          "principal node type (XPath 1.0 section 2.3) of `*` and name tests on the self-including axes from attribute and namespace context nodes; control probes on the other axes",
		"bound":         fmt.Sprintf("%d fixed probes on one document", len(probes)),
		"evaluations":   len(probes),
		"distinct":      len(probes),
		"samples":       []string{probes[0].e, probes[4].e, probes[12].e},
		"known_classes": classes,
		"failures":      fails,
	}
	b, _ := json.MarshalIndent(sum, "", " ")
	if *outPath != "" {
		os.WriteFile(*outPath, b, 0o644)
	}
	fmt.Println(string(b))
	if len(fails) > 0 {
		os.Exit(1)
	}
}
