// Bounded stand-in for the parser side of property C08 (the generated GLL parser and lexer are outside the reach of
// the contract verifier).  NOT a proof; labelled "bounded" in the evidence.
//
//  1. Structure: every expression tree up to a stated depth over the binary/unary operators of XPath 1.0 and a set of
//     leaves (numbers, literals, paths, names that spell operators, axis names or node types, names with '-', '.',
//     digits, function calls, variables) is rendered with minimal parentheses, with redundant parentheses and with
//     several white-space layouts; the real library (BuildExpr + Exec) must return, for every rendering, the value an
//     independent evaluator computes on the TREE (so precedence, associativity and token disambiguation are decided
//     by the tree, not by the library's parser).
//  2. Accept/reject: every rendering, and every string obtained from it by deleting, duplicating or swapping one
//     token, is classified by an independent recursive-descent recogniser of the XPath 1.0 grammar (with the lexical
//     disambiguation rules of section 3.7 and the library's documented extensions); BuildExpr must accept exactly the
//     strings the recogniser accepts, and must never panic.
package main

import (
	"encoding/json"
	"flag"
	"fmt"
	"math"
	"os"
	"regexp"
	"strconv"
	"strings"

	"github.com/ChrisTrenkamp/xsel"
)

const doc = `<r n="2"><a>3</a><div>4</div><mod>5</mod><and>6</and><or>7</or><a-b>8</a-b><a.b>9</a.b><a1>10</a1><child>12</child><text>13</text><b><a>14</a></b></r>`

// ---------- trees ----------
type kind int

const (
	kLeaf kind = iota
	kBin
	kNeg
)

type tree struct {
	k    kind
	op   string // binary operator
	l, r *tree
	leaf leaf
}

// a leaf: source text (token list) and its value: a number, a boolean, a string or a node-set given as the list of
// (document position, string-value) of its nodes
type item struct {
	pos int
	s   string
}

type leaf struct {
	toks  []string
	num   float64
	isNum bool
	str   string
	isSet bool
	items []item
	boolv bool
	isB   bool
}

func numLeaf(src string, v float64) leaf { return leaf{toks: []string{src}, num: v, isNum: true} }

// positions in the document below: @n=1, then the children of r in order
var childVals = []string{"3", "4", "5", "6", "7", "8", "9", "10", "12", "13", "14"}

func setLeaf(v float64, toks ...string) leaf {
	sv := strconv.FormatFloat(v, 'f', -1, 64)
	pos := 100 // b/a: inside the last child
	for i, c := range childVals {
		if c == sv && v != 14 {
			pos = 2 + i
		}
	}
	if v == 2 {
		pos = 1
	}
	return leaf{toks: toks, isSet: true, items: []item{{pos, sv}}}
}

func allChildren(toks ...string) leaf {
	var it []item
	for i, c := range childVals {
		it = append(it, item{2 + i, c})
	}
	return leaf{toks: toks, isSet: true, items: it}
}

// names that spell an operator are legal name tests wherever an operand is expected (section 3.7); they are kept out
// of the enumeration and probed separately because the pinned library rejects them (known finding)
var opNameLeaves = []leaf{setLeaf(4, "div"), setLeaf(5, "mod"), setLeaf(6, "and"), setLeaf(7, "or")}

var leaves = []leaf{
	numLeaf("1", 1), numLeaf("2.5", 2.5), numLeaf(".5", .5), numLeaf("7", 7),
	setLeaf(3, "a"),
	setLeaf(8, "a-b"), setLeaf(9, "a.b"), setLeaf(10, "a1"), setLeaf(12, "child"), setLeaf(13, "text"),
	allChildren("*"), setLeaf(2, "@", "n"), setLeaf(3, "child", "::", "a"), setLeaf(14, "b", "/", "a"),
	setLeaf(14, "b", "//", "a"), setLeaf(3, "/", "r", "/", "a"), setLeaf(3, ".", "/", "a"), setLeaf(3, "a", "[", "1", "]"),
	{toks: []string{"count", "(", "*", ")"}, num: 11, isNum: true},
	{toks: []string{"string-length", "(", "'ab'", ")"}, num: 2, isNum: true},
	{toks: []string{"$", "v"}, num: 21, isNum: true},
	{toks: []string{"'x'"}, str: "x"},
	{toks: []string{"true", "(", ")"}, isB: true, boolv: true},
}

type binop struct {
	op    string
	level int // 1 or, 2 and, 3 equality, 4 relational, 5 additive, 6 multiplicative, 8 union
}

var binops = []binop{{"or", 1}, {"and", 2}, {"=", 3}, {"!=", 3}, {"<", 4}, {"<=", 4}, {">", 4}, {">=", 4},
	{"+", 5}, {"-", 5}, {"*", 6}, {"div", 6}, {"mod", 6}, {"|", 8}}

func levelOf(op string) int {
	for _, b := range binops {
		if b.op == op {
			return b.level
		}
	}
	return 0
}

// value of a tree (independent evaluator, XPath 1.0 sections 3.4, 3.5, 4)
type val struct {
	n     float64
	s     string
	b     bool
	t     byte // 'n' number, 'b' boolean, 's' string, 'q' node-set
	items []item
}

func xpNumStr(f float64) string {
	switch {
	case math.IsNaN(f):
		return "NaN"
	case math.IsInf(f, 1):
		return "Infinity"
	case math.IsInf(f, -1):
		return "-Infinity"
	case f == 0:
		return "0"
	}
	return strconv.FormatFloat(f, 'f', -1, 64)
}

func strNum(s string) float64 {
	f, err := strconv.ParseFloat(strings.TrimSpace(s), 64)
	if err != nil {
		return math.NaN()
	}
	return f
}

func (v val) str() string {
	switch v.t {
	case 'n':
		return xpNumStr(v.n)
	case 'b':
		if v.b {
			return "true"
		}
		return "false"
	case 'q':
		if len(v.items) == 0 {
			return ""
		}
		return v.items[0].s
	}
	return v.s
}
func (v val) num() float64 {
	switch v.t {
	case 'n':
		return v.n
	case 'b':
		if v.b {
			return 1
		}
		return 0
	}
	return strNum(v.str())
}
func (v val) boolean() bool {
	switch v.t {
	case 'n':
		return v.n != 0 && !math.IsNaN(v.n)
	case 'b':
		return v.b
	case 's':
		return v.s != ""
	}
	return len(v.items) > 0
}

func numCmp(op string, x, y float64) bool {
	switch op {
	case "=":
		return x == y
	case "!=":
		return x != y
	case "<":
		return x < y
	case "<=":
		return x <= y
	case ">":
		return x > y
	}
	return x >= y
}

func flip(op string) string {
	switch op {
	case "<":
		return ">"
	case "<=":
		return ">="
	case ">":
		return "<"
	case ">=":
		return "<="
	}
	return op
}

func cmp(op string, a, b val) bool {
	eq := op == "=" || op == "!="
	if a.t != 'q' && b.t == 'q' {
		return cmp(flip(op), b, a)
	}
	if a.t == 'q' {
		switch b.t {
		case 'q':
			for _, x := range a.items {
				for _, y := range b.items {
					if eq {
						if (x.s == y.s) == (op == "=") {
							return true
						}
					} else if numCmp(op, strNum(x.s), strNum(y.s)) {
						return true
					}
				}
			}
			return false
		case 'b':
			if eq {
				return (a.boolean() == b.b) == (op == "=")
			}
			return numCmp(op, val{b: a.boolean(), t: 'b'}.num(), b.num())
		case 'n':
			for _, x := range a.items {
				if numCmp(op, strNum(x.s), b.n) {
					return true
				}
			}
			return false
		default:
			for _, x := range a.items {
				if eq {
					if (x.s == b.s) == (op == "=") {
						return true
					}
				} else if numCmp(op, strNum(x.s), strNum(b.s)) {
					return true
				}
			}
			return false
		}
	}
	if eq {
		switch {
		case a.t == 'b' || b.t == 'b':
			return (a.boolean() == b.boolean()) == (op == "=")
		case a.t == 'n' || b.t == 'n':
			return numCmp(op, a.num(), b.num())
		}
		return (a.str() == b.str()) == (op == "=")
	}
	return numCmp(op, a.num(), b.num())
}

func eval(t *tree) (val, bool) {
	switch t.k {
	case kLeaf:
		l := t.leaf
		switch {
		case l.isB:
			return val{b: l.boolv, t: 'b'}, true
		case l.isNum:
			return val{n: l.num, t: 'n'}, true
		case l.isSet:
			return val{items: l.items, t: 'q'}, true
		}
		return val{s: l.str, t: 's'}, true
	case kNeg:
		v, ok := eval(t.l)
		return val{n: -v.num(), t: 'n'}, ok
	}
	a, ok1 := eval(t.l)
	b, ok2 := eval(t.r)
	if !ok1 || !ok2 {
		return val{}, false
	}
	switch t.op {
	case "or":
		return val{b: a.boolean() || b.boolean(), t: 'b'}, true
	case "and":
		return val{b: a.boolean() && b.boolean(), t: 'b'}, true
	case "=", "!=", "<", "<=", ">", ">=":
		return val{b: cmp(t.op, a, b), t: 'b'}, true
	case "+":
		return val{n: a.num() + b.num(), t: 'n'}, true
	case "-":
		return val{n: a.num() - b.num(), t: 'n'}, true
	case "*":
		return val{n: a.num() * b.num(), t: 'n'}, true
	case "div":
		return val{n: a.num() / b.num(), t: 'n'}, true
	case "mod":
		return val{n: math.Mod(a.num(), b.num()), t: 'n'}, true
	case "|":
		if a.t != 'q' || b.t != 'q' {
			return val{}, false // a type error at run time: not a structure test
		}
		var out []item
		i, j := 0, 0
		for i < len(a.items) || j < len(b.items) {
			switch {
			case j >= len(b.items) || i < len(a.items) && a.items[i].pos < b.items[j].pos:
				out = append(out, a.items[i])
				i++
			case i >= len(a.items) || b.items[j].pos < a.items[i].pos:
				out = append(out, b.items[j])
				j++
			default:
				out = append(out, a.items[i])
				i++
				j++
			}
		}
		return val{items: out, t: 'q'}, true
	}
	return val{}, false
}

// ---------- rendering ----------
// grammar levels: a tree is rendered inside a context that requires at least `min` level; binary operators are left
// associative, so the right operand needs level+1.
func treeLevel(t *tree) int {
	switch t.k {
	case kBin:
		return levelOf(t.op)
	case kNeg:
		return 7
	}
	return 9
}

func render(t *tree, min int, full bool) []string {
	var out []string
	switch t.k {
	case kLeaf:
		out = append(out, t.leaf.toks...)
	case kNeg:
		out = append([]string{"-"}, render(t.l, 7, full)...)
	case kBin:
		lv := levelOf(t.op)
		out = append(out, render(t.l, lv, full)...)
		out = append(out, t.op)
		out = append(out, render(t.r, lv+1, full)...)
	}
	needs := treeLevel(t) < min
	if t.op == "|" && min == 9 {
		needs = true
	}
	// a union operand must be a path expression: a parenthesised node-set expression is one (FilterExpr)
	if needs || (full && t.k != kLeaf) {
		out = append(append([]string{"("}, out...), ")")
	}
	return out
}

// can two adjacent tokens be written without white space between them?
func isNameTok(s string) bool {
	if s == "" {
		return false
	}
	c := s[0]
	return c == '_' || c >= 'a' && c <= 'z' || c >= 'A' && c <= 'Z' || c >= '0' && c <= '9' || c == '.'
}

func join(toks []string, style int) string {
	var sb strings.Builder
	for i, t := range toks {
		if i > 0 {
			p := toks[i-1]
			glue := p == "$" // a variable reference is one token
			// white space that the lexical structure requires: between two tokens made of name characters, and before a
			// '-' or '.' that would otherwise continue a name
			alnum := func(s string) bool { return isNameTok(s) || s == "div" || s == "mod" || s == "and" || s == "or" }
			required := alnum(p) && (alnum(t) || t == "-" || strings.HasPrefix(t, "."))
			sep := ""
			switch style {
			case 0:
				sep = " "
			case 1:
				if required {
					sep = " "
				}
			case 2:
				sep = " \t\n "
			}
			if glue {
				sep = ""
			}
			sb.WriteString(sep)
		}
		sb.WriteString(t)
	}
	return sb.String()
}

// ---------- independent recogniser (XPath 1.0 grammar, section 3.7 lexical rules, library extensions) ----------
type tok struct {
	k string // "name", "num", "lit", "op" (operator names and symbols), "(", ")", "[", "]", ",", "@", "::", "$", ".", "..", "/", "//", "|", "*"(name test) , "axis", "nodetype", "fn"
	s string
}

var axes = map[string]bool{"ancestor": true, "ancestor-or-self": true, "attribute": true, "child": true, "descendant": true, "descendant-or-self": true,
	"following": true, "following-sibling": true, "namespace": true, "parent": true, "preceding": true, "preceding-sibling": true, "self": true}
var nodeTypes = map[string]bool{"comment": true, "text": true, "processing-instruction": true, "node": true}

func isNCStart(c byte) bool { return c == '_' || c >= 'a' && c <= 'z' || c >= 'A' && c <= 'Z' }
func isNCChar(c byte) bool  { return isNCStart(c) || c >= '0' && c <= '9' || c == '-' || c == '.' }
func isWs(c byte) bool      { return c == ' ' || c == '\t' || c == '\n' || c == '\r' }

func lex(s string) ([]tok, bool) {
	var out []tok
	i := 0
	prevAllowsOperator := func() bool {
		// 3.7: if there is a preceding token and it is not one of @, ::, (, [, , or an Operator, then * is the
		// multiply operator and an NCName is an OperatorName
		if len(out) == 0 {
			return false
		}
		p := out[len(out)-1]
		switch p.k {
		case "@", "::", "(", "[", ",", "op", "/", "//", "|", "$":
			return false
		}
		return true
	}
	for i < len(s) {
		c := s[i]
		switch {
		case isWs(c):
			i++
		case c == '(' || c == ')' || c == '[' || c == ']' || c == ',' || c == '@' || c == '$' || c == '|':
			out = append(out, tok{string(c), string(c)})
			i++
		case c == '/':
			if i+1 < len(s) && s[i+1] == '/' {
				out = append(out, tok{"//", "//"})
				i += 2
			} else {
				out = append(out, tok{"/", "/"})
				i++
			}
		case c == ':':
			if i+1 < len(s) && s[i+1] == ':' {
				out = append(out, tok{"::", "::"})
				i += 2
			} else {
				return nil, false
			}
		case c == '+' || c == '-' || c == '=':
			out = append(out, tok{"op", string(c)})
			i++
		case c == '!':
			if i+1 < len(s) && s[i+1] == '=' {
				out = append(out, tok{"op", "!="})
				i += 2
			} else {
				return nil, false
			}
		case c == '<' || c == '>':
			if i+1 < len(s) && s[i+1] == '=' {
				out = append(out, tok{"op", string(c) + "="})
				i += 2
			} else {
				out = append(out, tok{"op", string(c)})
				i++
			}
		case c == '*':
			if prevAllowsOperator() {
				out = append(out, tok{"op", "*"})
			} else {
				out = append(out, tok{"*", "*"})
			}
			i++
		case c == '"' || c == '\'':
			j := strings.IndexByte(s[i+1:], c)
			if j < 0 {
				return nil, false
			}
			out = append(out, tok{"lit", s[i : i+j+2]})
			i += j + 2
		case c >= '0' && c <= '9' || c == '.' && i+1 < len(s) && s[i+1] >= '0' && s[i+1] <= '9':
			j := i
			for j < len(s) && s[j] >= '0' && s[j] <= '9' {
				j++
			}
			if j < len(s) && s[j] == '.' {
				j++
				for j < len(s) && s[j] >= '0' && s[j] <= '9' {
					j++
				}
			}
			out = append(out, tok{"num", s[i:j]})
			i = j
		case c == '.':
			if i+1 < len(s) && s[i+1] == '.' {
				out = append(out, tok{"..", ".."})
				i += 2
			} else {
				out = append(out, tok{".", "."})
				i++
			}
		case isNCStart(c):
			j := i
			for j < len(s) && isNCChar(s[j]) {
				j++
			}
			name := s[i:j]
			// QName / prefix:* (no white space around the colon)
			if j+1 < len(s) && s[j] == ':' && s[j+1] != ':' {
				if s[j+1] == '*' {
					out = append(out, tok{"name", name + ":*"})
					i = j + 2
					continue
				}
				if isNCStart(s[j+1]) {
					k := j + 1
					for k < len(s) && isNCChar(s[k]) {
						k++
					}
					name = s[i:k]
					j = k
				}
			}
			if prevAllowsOperator() && (name == "and" || name == "or" || name == "mod" || name == "div") {
				out = append(out, tok{"op", name})
				i = j
				continue
			}
			// look ahead past white space
			k := j
			for k < len(s) && isWs(s[k]) {
				k++
			}
			switch {
			case k < len(s) && s[k] == '(':
				if nodeTypes[name] {
					out = append(out, tok{"nodetype", name})
				} else {
					out = append(out, tok{"fn", name})
				}
			case k+1 < len(s) && s[k] == ':' && s[k+1] == ':':
				out = append(out, tok{"axis", name})
			default:
				out = append(out, tok{"name", name})
			}
			i = j
		default:
			return nil, false
		}
	}
	return out, true
}

type parser struct {
	t []tok
	p int
}

func (p *parser) peek() tok {
	if p.p < len(p.t) {
		return p.t[p.p]
	}
	return tok{"eof", ""}
}
func (p *parser) eat(k, s string) bool {
	t := p.peek()
	if t.k == k && (s == "" || t.s == s) {
		p.p++
		return true
	}
	return false
}
func (p *parser) binLevel(ops []string, next func() bool) bool {
	if !next() {
		return false
	}
	for {
		t := p.peek()
		found := false
		if t.k == "op" {
			for _, o := range ops {
				if t.s == o {
					found = true
				}
			}
		}
		if !found {
			return true
		}
		p.p++
		if !next() {
			return false
		}
	}
}
func (p *parser) orExpr() bool  { return p.binLevel([]string{"or"}, p.andExpr) }
func (p *parser) andExpr() bool { return p.binLevel([]string{"and"}, p.eqExpr) }
func (p *parser) eqExpr() bool  { return p.binLevel([]string{"=", "!="}, p.relExpr) }
func (p *parser) relExpr() bool { return p.binLevel([]string{"<", "<=", ">", ">="}, p.addExpr) }
func (p *parser) addExpr() bool { return p.binLevel([]string{"+", "-"}, p.mulExpr) }
func (p *parser) mulExpr() bool { return p.binLevel([]string{"*", "div", "mod"}, p.unaryExpr) }
func (p *parser) unaryExpr() bool {
	for p.eat("op", "-") {
	}
	return p.unionExpr()
}
func (p *parser) unionExpr() bool {
	if !p.pathExpr() {
		return false
	}
	for p.eat("|", "") {
		if !p.pathExpr() {
			return false
		}
	}
	return true
}
func (p *parser) startsPrimary() bool {
	t := p.peek()
	return t.k == "$" || t.k == "(" || t.k == "lit" || t.k == "num" || t.k == "fn"
}
func (p *parser) pathExpr() bool {
	if p.startsPrimary() {
		// FilterExpr ('/' | '//') RelativeLocationPath
		if !p.primary() {
			return false
		}
		for p.peek().k == "[" {
			if !p.predicate() {
				return false
			}
		}
		if p.eat("/", "") || p.eat("//", "") {
			return p.relPath()
		}
		return true
	}
	return p.locationPath()
}
func (p *parser) primary() bool {
	switch {
	case p.eat("$", ""):
		return p.eat("name", "")
	case p.eat("(", ""):
		return p.orExpr() && p.eat(")", "")
	case p.eat("lit", ""), p.eat("num", ""):
		return true
	case p.eat("fn", ""):
		if !p.eat("(", "") {
			return false
		}
		if p.eat(")", "") {
			return true
		}
		for {
			if !p.orExpr() {
				return false
			}
			if p.eat(")", "") {
				return true
			}
			if !p.eat(",", "") {
				return false
			}
		}
	}
	return false
}
func (p *parser) predicate() bool { return p.eat("[", "") && p.orExpr() && p.eat("]", "") }
func (p *parser) startsStep() bool {
	t := p.peek()
	return t.k == "name" || t.k == "*" || t.k == "@" || t.k == "axis" || t.k == "nodetype" || t.k == "." || t.k == ".." || t.k == "fn"
}
func (p *parser) locationPath() bool {
	if p.eat("/", "") {
		if p.startsStep() {
			return p.relPath()
		}
		return true
	}
	if p.eat("//", "") {
		return p.relPath()
	}
	return p.relPath()
}
func (p *parser) relPath() bool {
	if !p.step() {
		return false
	}
	for p.eat("/", "") || p.eat("//", "") {
		if !p.step() {
			return false
		}
	}
	return true
}
func (p *parser) step() bool {
	if p.eat(".", "") || p.eat("..", "") {
		return true
	}
	if p.peek().k == "fn" {
		return p.primary() // library extension: a function call as a step (P/f())
	}
	if p.eat("@", "") {
	} else if p.peek().k == "axis" {
		if !axes[p.peek().s] {
			return false
		}
		p.p++
		if !p.eat("::", "") {
			return false
		}
	}
	// node test
	switch {
	case p.eat("name", ""), p.eat("*", ""):
	case p.peek().k == "nodetype":
		name := p.peek().s
		p.p++
		if !p.eat("(", "") {
			return false
		}
		if name == "processing-instruction" && p.peek().k == "lit" {
			p.p++
		}
		if !p.eat(")", "") {
			return false
		}
	default:
		return false
	}
	for p.peek().k == "[" {
		if !p.predicate() {
			return false
		}
	}
	return true
}

func recognise(s string) bool {
	toks, ok := lex(s)
	if !ok || len(toks) == 0 {
		return false
	}
	p := &parser{t: toks}
	return p.orExpr() && p.p == len(toks)
}

// ---------- driver ----------
var junkChars = []string{"\x00", "\x01", "\x07", "\x0b", "\x0c", "\x1f", "\x7f", "\u00a0", "\u0085", "\u2003", "\u3000", "#", "?", ";", "\\", "{", "}", "~", "`", "%", "^", "&"}

var (
	reUniSpace = regexp.MustCompile("[\x0b\x0c\u00a0\u0085\u2003\u3000]")
	reWsNumber = regexp.MustCompile(`[0-9]\s+\.\s*[0-9]|[0-9]\.\s+[0-9]`)
	reWsQName  = regexp.MustCompile(`[A-Za-z0-9_.-]\s+:[A-Za-z_*]|[A-Za-z0-9_.-]:\s+[A-Za-z_*]|[A-Za-z0-9_.-]\s+:\s+[A-Za-z_*]`)
)

// classOf attributes a failure to one of the defect classes of the generated parser that are recorded as known
// findings; "" = not one of them.
func classOf(f failure) string {
	rejectedValid := f.Kind == "rejected a valid expression" || f.Kind == "accept/reject" && f.Want == "true"
	acceptedInvalid := f.Kind == "accept/reject" && f.Want == "false"
	if rejectedValid {
		if toks, ok := lex(f.Expr); ok {
			for _, t := range toks {
				if (t.k == "name" || t.k == "fn" || t.k == "axis") && (t.s == "div" || t.s == "mod" || t.s == "and" || t.s == "or") {
					return "operator-name-as-name-test"
				}
				if t.k == "fn" && axes[t.s] {
					return "axis-name-as-function-name"
				}
			}
		}
	}
	if acceptedInvalid && reUniSpace.MatchString(f.Expr) {
		return "unicode-space-as-white-space"
	}
	if acceptedInvalid && strings.Contains(f.Expr, "#") {
		return "hash-as-name-character"
	}
	if acceptedInvalid && reWsNumber.MatchString(f.Expr) {
		return "white-space-inside-number"
	}
	if acceptedInvalid && reWsQName.MatchString(f.Expr) {
		return "white-space-inside-qname"
	}
	return ""
}

type failure struct {
	Kind   string `json:"kind"`
	Expr   string `json:"expr"`
	Want   string `json:"want"`
	Got    string `json:"got"`
	Detail string `json:"detail,omitempty"`
}

func build(s string) (g *xsel.Grammar, err error, panicked string) {
	defer func() {
		if r := recover(); r != nil {
			panicked = fmt.Sprint(r)
		}
	}()
	gg, e := xsel.BuildExpr(s)
	return &gg, e, ""
}

func main() {
	depth := flag.Int("n", 2, "maximal operator nesting depth of the enumerated trees")
	outPath := flag.String("o", "", "write the JSON summary here")
	maxFail := flag.Int("maxfail", 200000, "stop after this many failures")
	knownFlag := flag.String("known", "", "comma-separated defect classes listed in known-findings.json (failures of these classes are reported as known, not as failures)")
	sample := flag.Int("sample", 3000, "number of trees sampled at every depth >= 2")
	flag.Parse()
	cur, err := xsel.ReadXml(strings.NewReader(doc))
	if err != nil {
		fmt.Println(err)
		os.Exit(2)
	}
	q := xsel.MustBuildExpr("/r")
	ns, err := xsel.ExecAsNodeset(cur, &q)
	if err != nil || len(ns) != 1 {
		fmt.Println("context node not found", err)
		os.Exit(2)
	}
	ctx := ns[0]
	var fails []failure
	nTrees, nStruct, nSyntax := 0, 0, 0
	seenSyntax := map[string]bool{}
	checkSyntax := func(s string) {
		if seenSyntax[s] || len(fails) >= *maxFail {
			return
		}
		seenSyntax[s] = true
		nSyntax++
		want := recognise(s)
		_, err, pan := build(s)
		if pan != "" {
			fails = append(fails, failure{Kind: "panic", Expr: s, Got: pan})
			return
		}
		if (err == nil) != want {
			fails = append(fails, failure{Kind: "accept/reject", Expr: s, Want: fmt.Sprint(want), Got: fmt.Sprint(err == nil), Detail: fmt.Sprint(err)})
		}
	}
	check := func(t *tree) {
		if len(fails) >= *maxFail {
			return
		}
		want, ok := eval(t)
		if !ok {
			return
		}
		nTrees++
		for _, full := range []bool{false, true} {
			toks := render(t, 0, full)
			for style := 0; style < 3; style++ {
				s := join(toks, style)
				nStruct++
				g, err, pan := build(s)
				if pan != "" {
					fails = append(fails, failure{Kind: "panic", Expr: s, Got: pan})
					return
				}
				if err != nil {
					fails = append(fails, failure{Kind: "rejected a valid expression", Expr: s, Got: err.Error()})
					return
				}
				res, err := xsel.Exec(ctx, g, xsel.WithVariable("v", xsel.Number(21)))
				if err != nil {
					fails = append(fails, failure{Kind: "evaluation error", Expr: s, Got: err.Error()})
					return
				}
				got := res.String()
				if style == 0 {
					// BuildExpr of the same string must yield an equivalent query (C13): build and evaluate again
					if g2, err2, _ := build(s); err2 == nil {
						if res2, err3 := xsel.Exec(ctx, g2, xsel.WithVariable("v", xsel.Number(21))); err3 != nil || res2.String() != got {
							fails = append(fails, failure{Kind: "nondeterministic", Expr: s, Want: got, Got: fmt.Sprint(res2, err3)})
							return
						}
					} else {
						fails = append(fails, failure{Kind: "nondeterministic", Expr: s, Want: "accepted", Got: err2.Error()})
						return
					}
				}
				if got != want.str() {
					fails = append(fails, failure{Kind: "structure", Expr: s, Want: want.str(), Got: got})
					return
				}
				if style == 0 && !full {
					// token mutations of the plain rendering
					checkSyntax(s)
					for i := range toks {
						del := append(append([]string{}, toks[:i]...), toks[i+1:]...)
						checkSyntax(join(del, 0))
						dup := append(append(append([]string{}, toks[:i+1]...), toks[i]), toks[i+1:]...)
						checkSyntax(join(dup, 0))
						if i+1 < len(toks) {
							sw := append([]string{}, toks...)
							sw[i], sw[i+1] = sw[i+1], sw[i]
							checkSyntax(join(sw, 0))
						}
					}
					if nTrees <= 150 {
						// characters that are neither tokens nor XPath white space (#x20 #x9 #xD #xA), between tokens
						for pos := 0; pos <= len(toks); pos++ {
							for _, junk := range junkChars {
								checkSyntax(strings.TrimSpace(join(toks[:pos], 0) + " " + junk + " " + join(toks[pos:], 0)))
								if pos > 0 && pos < len(toks) {
									checkSyntax(join(toks[:pos], 0) + junk + join(toks[pos:], 0))
								}
							}
						}
					}
					checkSyntax(s + " )")
					checkSyntax("( " + s)
					checkSyntax(s + " ]")
					checkSyntax(s + " 1")
				}
			}
		}
	}
	// enumerate trees
	var level [][]*tree
	var l0 []*tree
	for _, lf := range leaves {
		l0 = append(l0, &tree{k: kLeaf, leaf: lf})
	}
	level = append(level, l0)
	for d := 1; d <= *depth; d++ {
		var cur []*tree
		prev := level[d-1]
		var all []*tree
		for _, l := range level {
			all = append(all, l...)
		}
		// deeper levels: a deterministic sample of fixed size (every stride-th combination)
		total := 0
		for range binops {
			for _, a := range all {
				for _, b := range all {
					if treeDepth(a) == d-1 || treeDepth(b) == d-1 {
						total++
					}
				}
			}
		}
		stride := 1
		if d >= 2 && total > *sample {
			stride = total / *sample
		}
		cnt := 0
		for _, op := range binops {
			for _, a := range all {
				for _, b := range all {
					if treeDepth(a) != d-1 && treeDepth(b) != d-1 {
						continue
					}
					cnt++
					if cnt%stride != 0 {
						continue
					}
					cur = append(cur, &tree{k: kBin, op: op.op, l: a, r: b})
				}
			}
		}
		for i, a := range prev {
			if d == 1 || i%stride == 0 {
				cur = append(cur, &tree{k: kNeg, l: a})
			}
		}
		level = append(level, cur)
	}
	for _, l := range level {
		for _, t := range l {
			check(t)
		}
	}
	// probes: names that spell an operator, alone and as operands
	for _, lf := range opNameLeaves {
		lt := &tree{k: kLeaf, leaf: lf}
		check(lt)
		for _, op := range binops {
			check(&tree{k: kBin, op: op.op, l: lt, r: &tree{k: kLeaf, leaf: leaves[0]}})
			check(&tree{k: kBin, op: op.op, l: &tree{k: kLeaf, leaf: leaves[4]}, r: lt})
		}
	}
	for _, s := range []string{"p : a", "p: a", "p :a", "p :*", "1 . 5", "1. 5", "1 .5"} {
		checkSyntax(s)
	}
	knownSet := map[string]bool{}
	for _, k := range strings.Split(*knownFlag, ",") {
		if k != "" {
			knownSet[k] = true
		}
	}
	type classInfo struct {
		Count   int    `json:"count"`
		Witness string `json:"witness"`
		Listed  bool   `json:"listed_as_known_finding"`
	}
	classes := map[string]*classInfo{}
	var unexplained []failure
	for _, f := range fails {
		c := classOf(f)
		if c == "" || !knownSet[c] {
			unexplained = append(unexplained, f)
		}
		if c != "" {
			if classes[c] == nil {
				classes[c] = &classInfo{Witness: f.Expr, Listed: knownSet[c]}
			}
			classes[c].Count++
		}
	}
	fails = unexplained
	sum := map[string]interface{}{
		"what":                 "parser stand-in for C08: structure (tree value vs library value over renderings) and accept/reject (independent recogniser vs BuildExpr) ",
		"bound":                fmt.Sprintf("operator nesting depth <= %d over %d leaves and %d binary operators + unary minus (depth >= 2: deterministic sample of %d trees per depth); 6 renderings per tree; single-token deletions, duplications, swaps", *depth, len(leaves), len(binops), *sample),
		"trees":                nTrees,
		"structure_checks":     nStruct,
		"accept_reject_checks": nSyntax,
		"known_classes":        classes,
		"failures":             fails,
	}
	b, _ := json.MarshalIndent(sum, "", " ")
	if *outPath != "" {
		os.WriteFile(*outPath, b, 0o644)
	}
	fmt.Println(string(b))
	if len(fails) > 0 {
		os.Exit(1)
	}
}

func treeDepth(t *tree) int {
	switch t.k {
	case kLeaf:
		return 0
	case kNeg:
		return 1 + treeDepth(t.l)
	}
	a, b := treeDepth(t.l), treeDepth(t.r)
	if b > a {
		a = b
	}
	return 1 + a
}
