module bounded/strings

go 1.20

require github.com/ChrisTrenkamp/xsel v0.0.0

replace github.com/ChrisTrenkamp/xsel => /repo
