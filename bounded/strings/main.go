// Bounded stand-in for the character-level string functions of XPath 1.0 section 4.2 (property C07):
// substring, normalize-space, translate and string-length are run through the real library (xsel.Exec with
// variables) on every string up to a stated length over an alphabet that mixes 1-, 2-, 3- and 4-byte characters
// and several kinds of white space, and on a grid of numeric arguments, and compared with an independent oracle
// written from the Recommendation.  NOT a proof; labelled "bounded" in the evidence.
package main

import (
	"encoding/json"
	"flag"
	"fmt"
	"math"
	"os"
	"strings"
	"unicode/utf8"

	"github.com/ChrisTrenkamp/xsel"
)

var alphabet = []rune{'a', 'b', 'é', '€', '😀', ' ', '\t', ' '}

func xpRound(x float64) float64 {
	if math.IsNaN(x) || math.IsInf(x, 0) {
		return x
	}
	f := math.Floor(x)
	if x-f >= 0.5 {
		return f + 1
	}
	return f
}

func oracleSubstring(s string, p float64, l *float64) string {
	first := xpRound(p)
	last := math.Inf(1)
	if l != nil {
		last = first + xpRound(*l)
	}
	var sb strings.Builder
	q := 0
	for _, r := range s {
		q++
		if first <= float64(q) && float64(q) < last {
			sb.WriteRune(r)
		}
	}
	return sb.String()
}

func isXmlWs(r rune) bool { return r == ' ' || r == '\t' || r == '\r' || r == '\n' }

func oracleNormalize(s string) string {
	var words []string
	var cur []rune
	for _, r := range s {
		if isXmlWs(r) {
			if len(cur) > 0 {
				words = append(words, string(cur))
				cur = nil
			}
		} else {
			cur = append(cur, r)
		}
	}
	if len(cur) > 0 {
		words = append(words, string(cur))
	}
	return strings.Join(words, " ")
}

func oracleTranslate(s, from, to string) string {
	f, t := []rune(from), []rune(to)
	var sb strings.Builder
	for _, r := range s {
		idx := -1
		for i, x := range f {
			if x == r {
				idx = i
				break
			}
		}
		switch {
		case idx < 0:
			sb.WriteRune(r)
		case idx < len(t):
			sb.WriteRune(t[idx])
		}
	}
	return sb.String()
}

type failure struct {
	Expr string   `json:"expr"`
	Args []string `json:"args"`
	Got  string   `json:"got"`
	Want string   `json:"want"`
}

func allStrings(n int) []string {
	out := []string{""}
	level := []string{""}
	for i := 0; i < n; i++ {
		var next []string
		for _, s := range level {
			for _, r := range alphabet {
				next = append(next, s+string(r))
			}
		}
		out = append(out, next...)
		level = next
	}
	return out
}

func main() {
	max := flag.Int("n", 3, "maximum string length")
	out := flag.String("o", "", "JSON summary")
	flag.Parse()
	cur, err := xsel.ReadXml(strings.NewReader(`<r/>`))
	if err != nil {
		panic(err)
	}
	var fails []failure
	evals := 0
	run := func(expr xsel.Grammar, text string, want string, show []string, opts ...xsel.ContextApply) {
		evals++
		res, err := xsel.Exec(cur, &expr, opts...)
		got := ""
		if err != nil {
			got = "ERROR: " + err.Error()
		} else {
			got = res.String()
		}
		if (got != want || !utf8.ValidString(got)) && len(fails) < 25 {
			fails = append(fails, failure{text, show, fmt.Sprintf("%q", got), fmt.Sprintf("%q", want)})
		}
	}
	strs := allStrings(*max)
	nums := []float64{math.NaN(), math.Inf(-1), -2, -0.5, math.Copysign(0, -1), 0, 0.49999999999999994, 0.5, 1, 1.5, 2, 2.5, 3, 4, 1e10, math.Inf(1), -1e20, -1e19, 1e19} // the last three: start+length beyond the int64 range (seed C07-r3-2)
	sub3 := xsel.MustBuildExpr(`substring($s, $p, $l)`)
	sub2 := xsel.MustBuildExpr(`substring($s, $p)`)
	slen := xsel.MustBuildExpr(`string-length($s)`)
	norm := xsel.MustBuildExpr(`normalize-space($s)`)
	trans := xsel.MustBuildExpr(`translate($s, $f, $t)`)
	for _, s := range strs {
		vs := xsel.WithVariable("s", xsel.String(s))
		run(slen, "string-length($s)", xsel.Number(float64(utf8.RuneCountInString(s))).String(), []string{fmt.Sprintf("%q", s)}, vs)
		run(norm, "normalize-space($s)", oracleNormalize(s), []string{fmt.Sprintf("%q", s)}, vs)
		for _, p := range nums {
			vp := xsel.WithVariable("p", xsel.Number(p))
			run(sub2, "substring($s,$p)", oracleSubstring(s, p, nil), []string{fmt.Sprintf("%q", s), fmt.Sprint(p)}, vs, vp)
			for _, l := range nums {
				l := l
				run(sub3, "substring($s,$p,$l)", oracleSubstring(s, p, &l), []string{fmt.Sprintf("%q", s), fmt.Sprint(p), fmt.Sprint(l)}, vs, vp, xsel.WithVariable("l", xsel.Number(l)))
			}
		}
	}
	// translate: source strings up to length 3, from/to up to length 2 over a smaller alphabet (with repeats in `from`)
	small := []string{"", "a", "é", "😀", "aa", "aé", "éa", "a😀", "ab", "ba", "€a"}
	for _, s := range strs {
		if utf8.RuneCountInString(s) > 3 {
			continue
		}
		for _, f := range small {
			for _, t := range small {
				run(trans, "translate($s,$f,$t)", oracleTranslate(s, f, t), []string{fmt.Sprintf("%q", s), fmt.Sprintf("%q", f), fmt.Sprintf("%q", t)},
					xsel.WithVariable("s", xsel.String(s)), xsel.WithVariable("f", xsel.String(f)), xsel.WithVariable("t", xsel.String(t)))
			}
		}
	}
	sum := map[string]interface{}{"max_string_length": *max, "alphabet": string(alphabet), "strings": len(strs), "numeric_grid": len(nums), "evaluations": evals, "failures": fails,
		"excluded": "position/length arguments that are ties below -0.5 (known finding exec.getRound/post[@nearest-negtie])"}
	b, _ := json.MarshalIndent(sum, "", " ")
	if *out != "" {
		os.WriteFile(*out, b, 0o644)
	}
	fmt.Println(string(b))
	if len(fails) > 0 {
		os.Exit(1)
	}
}
