// Bounded stand-in for the document-to-tree mapping of ReadXml (property C09).  NOT a proof; labelled "bounded" in
// the evidence.  Abstract documents (elements with expanded names, namespace declarations incl. default, override
// and undeclaration, attributes, text, CDATA, comments, processing instructions, prolog/epilog items) are enumerated
// up to a stated size, serialised (several prolog variants and two 8-bit encodings), read with the real xsel.ReadXml,
// and the resulting cursor tree is walked in parallel with the XPath 1.0 data model computed from the ABSTRACT
// document.  A list of malformed byte strings must be rejected with an error.
package main

import (
	"encoding/json"
	"flag"
	"fmt"
	"os"
	"sort"
	"strings"

	"github.com/ChrisTrenkamp/xsel"
	"github.com/ChrisTrenkamp/xsel/node"
	"github.com/ChrisTrenkamp/xsel/store"
)

// ---------- abstract documents ----------
type decl struct{ prefix, uri string } // uri "" with prefix "" = undeclaration of the default namespace

type attr struct{ prefix, local, value string }

type item struct {
	kind byte // 'e' element, 't' text, 'c' CDATA, 'm' comment, 'p' processing instruction
	text string
	elem *elem
	targ string
}

type elem struct {
	prefix, local string
	decls         []decl
	attrs         []attr
	content       []item
}

const xmlURI = "http://www.w3.org/XML/1998/namespace"

func esc(s string) string {
	s = strings.ReplaceAll(s, "&", "&amp;")
	s = strings.ReplaceAll(s, "<", "&lt;")
	return strings.ReplaceAll(s, "\"", "&quot;")
}

func (e *elem) serialise(sb *strings.Builder) {
	name := e.local
	if e.prefix != "" {
		name = e.prefix + ":" + e.local
	}
	sb.WriteString("<" + name)
	for _, d := range e.decls {
		if d.prefix == "" {
			fmt.Fprintf(sb, ` xmlns="%s"`, d.uri)
		} else {
			fmt.Fprintf(sb, ` xmlns:%s="%s"`, d.prefix, d.uri)
		}
	}
	for _, a := range e.attrs {
		n := a.local
		if a.prefix != "" {
			n = a.prefix + ":" + a.local
		}
		fmt.Fprintf(sb, ` %s="%s"`, n, esc(a.value))
	}
	if len(e.content) == 0 {
		sb.WriteString("/>")
		return
	}
	sb.WriteString(">")
	for _, it := range e.content {
		it.serialise(sb)
	}
	sb.WriteString("</" + name + ">")
}

func (it item) serialise(sb *strings.Builder) {
	switch it.kind {
	case 'e':
		it.elem.serialise(sb)
	case 't':
		sb.WriteString(it.text) // may contain references: written as is
	case 'c':
		sb.WriteString("<![CDATA[" + it.text + "]]>")
	case 'm':
		sb.WriteString("<!--" + it.text + "-->")
	case 'p':
		sb.WriteString("<?" + it.targ + " " + it.text + "?>")
	}
}

// the text a 't' item denotes after reference expansion
func textValue(s string) string {
	r := strings.NewReplacer("&amp;", "&", "&lt;", "<", "&#65;", "A", "&#x42;", "B", "&gt;", ">")
	return r.Replace(s)
}

// ---------- expected data model ----------
type xnode struct {
	kind     byte // 'r' root, 'e', 't', 'm', 'p'
	uri      string
	local    string
	value    string
	attrs    []xattr
	ns       map[string]string
	children []*xnode
}
type xattr struct{ uri, local, value string }

func expect(e *elem, scope map[string]string) *xnode {
	sc := map[string]string{}
	for k, v := range scope {
		sc[k] = v
	}
	for _, d := range e.decls {
		if d.uri == "" {
			delete(sc, d.prefix)
		} else {
			sc[d.prefix] = d.uri
		}
	}
	n := &xnode{kind: 'e', local: e.local, ns: map[string]string{"xml": xmlURI}}
	for k, v := range sc {
		n.ns[k] = v
	}
	n.uri = sc[e.prefix] // "" prefix: the default namespace, if any
	for _, a := range e.attrs {
		u := ""
		if a.prefix == "xml" {
			u = xmlURI
		} else if a.prefix != "" {
			u = sc[a.prefix]
		}
		n.attrs = append(n.attrs, xattr{u, a.local, a.value})
	}
	n.children = expectContent(e.content, sc)
	return n
}

func expectContent(items []item, sc map[string]string) []*xnode {
	var out []*xnode
	for _, it := range items {
		switch it.kind {
		case 'e':
			out = append(out, expect(it.elem, sc))
		case 't', 'c':
			v := it.text
			if it.kind == 't' {
				v = textValue(v)
			}
			if v == "" {
				continue
			}
			if len(out) > 0 && out[len(out)-1].kind == 't' {
				out[len(out)-1].value += v
			} else {
				out = append(out, &xnode{kind: 't', value: v})
			}
		case 'm':
			out = append(out, &xnode{kind: 'm', value: it.text})
		case 'p':
			out = append(out, &xnode{kind: 'p', local: it.targ, value: it.text})
		}
	}
	return out
}

// ---------- comparison with the cursor tree ----------
func compare(c store.Cursor, want *xnode, parent store.Cursor, path string) string {
	if c == nil {
		return path + ": nil cursor"
	}
	if parent != nil && c.Parent() != parent {
		return path + ": Parent() is not the node that lists it"
	}
	switch want.kind {
	case 'r':
	case 'e':
		n, ok := c.Node().(node.Element)
		if _, isAttr := c.Node().(node.Attribute); !ok || isAttr {
			return fmt.Sprintf("%s: want element, got %T", path, c.Node())
		}
		if n.Space() != want.uri || n.Local() != want.local {
			return fmt.Sprintf("%s: element name {%s}%s, want {%s}%s", path, n.Space(), n.Local(), want.uri, want.local)
		}
	case 't':
		n, ok := c.Node().(node.CharData)
		if !ok || n.CharDataValue() != want.value {
			return fmt.Sprintf("%s: want text %q, got %T %v", path, want.value, c.Node(), c.Node())
		}
	case 'm':
		n, ok := c.Node().(node.Comment)
		if !ok || n.CommentValue() != want.value {
			return fmt.Sprintf("%s: want comment %q, got %T %v", path, want.value, c.Node(), c.Node())
		}
	case 'p':
		n, ok := c.Node().(node.ProcInst)
		if !ok || n.Target() != want.local || n.ProcInstValue() != want.value {
			return fmt.Sprintf("%s: want processing instruction %s %q, got %T %v", path, want.local, want.value, c.Node(), c.Node())
		}
	}
	if want.kind == 'e' {
		as := c.Attributes()
		if len(as) != len(want.attrs) {
			return fmt.Sprintf("%s: %d attributes, want %d", path, len(as), len(want.attrs))
		}
		for i, a := range as {
			n, ok := a.Node().(node.Attribute)
			w := want.attrs[i]
			if !ok || n.Space() != w.uri || n.Local() != w.local || n.AttributeValue() != w.value {
				return fmt.Sprintf("%s: attribute %d is %v, want %v", path, i, a.Node(), w)
			}
			if a.Parent() != c {
				return path + ": attribute does not belong to its element"
			}
		}
		got := map[string]string{}
		for _, nsn := range c.Namespaces() {
			n, ok := nsn.Node().(node.Namespace)
			if !ok {
				return fmt.Sprintf("%s: namespace list holds %T", path, nsn.Node())
			}
			if _, dup := got[n.Prefix()]; dup {
				return fmt.Sprintf("%s: two namespace nodes for prefix %q", path, n.Prefix())
			}
			got[n.Prefix()] = n.NamespaceValue()
			if nsn.Parent() != c {
				return fmt.Sprintf("%s: namespace node %q belongs to another element", path, n.Prefix())
			}
		}
		if fmt.Sprint(sortedMap(got)) != fmt.Sprint(sortedMap(want.ns)) {
			return fmt.Sprintf("%s: namespace nodes %v, want %v", path, sortedMap(got), sortedMap(want.ns))
		}
	} else if len(c.Attributes()) != 0 || len(c.Namespaces()) != 0 {
		return path + ": a non-element has attributes or namespace nodes"
	}
	ch := c.Children()
	if len(ch) != len(want.children) {
		var kinds []string
		for _, x := range ch {
			kinds = append(kinds, fmt.Sprintf("%T%v", x.Node(), x.Node()))
		}
		return fmt.Sprintf("%s: %d children %v, want %d", path, len(ch), kinds, len(want.children))
	}
	for i, x := range ch {
		if msg := compare(x, want.children[i], c, fmt.Sprintf("%s/%d", path, i)); msg != "" {
			return msg
		}
	}
	return ""
}

func sortedMap(m map[string]string) []string {
	var out []string
	for k, v := range m {
		out = append(out, k+"="+v)
	}
	sort.Strings(out)
	return out
}

// ---------- enumeration ----------
var declSets = [][]decl{
	nil,
	{{"", "urn:d"}},
	{{"p", "urn:p"}},
	{{"", "urn:d"}, {"p", "urn:p"}},
	{{"p", "urn:p2"}},
	{{"", ""}},
	{{"q", "urn:q"}, {"", "urn:d2"}},
}

type failure struct {
	Doc  string `json:"doc"`
	What string `json:"what"`
}

func latin1(s string) ([]byte, bool) {
	var out []byte
	for _, r := range s {
		if r > 0xff {
			return nil, false
		}
		out = append(out, byte(r))
	}
	return out, true
}

func main() {
	n := flag.Int("n", 3, "maximal number of content items of the document element (children get n-1)")
	outPath := flag.String("o", "", "write the JSON summary here")
	flag.Parse()
	var fails []failure
	docs, reads := 0, 0
	check := func(src []byte, label string, want *xnode) {
		if len(fails) >= 25 {
			return
		}
		reads++
		var cur store.Cursor
		var err error
		func() {
			defer func() {
				if r := recover(); r != nil {
					err = fmt.Errorf("PANIC: %v", r)
				}
			}()
			cur, err = xsel.ReadXml(strings.NewReader(string(src)))
		}()
		if err != nil {
			fails = append(fails, failure{label, "well-formed document rejected: " + err.Error()})
			return
		}
		if msg := compare(cur, want, nil, ""); msg != "" {
			fails = append(fails, failure{label, msg})
		}
	}
	// content sequences
	leafItems := []item{{kind: 't', text: "x"}, {kind: 'c', text: "y<&"}, {kind: 't', text: "&amp;&#65;&#x42;"}, {kind: 'm', text: "c"}, {kind: 'p', targ: "pi", text: "d"}, {kind: 't', text: " "}}
	var seqs func(items []item, k int) [][]item
	seqs = func(items []item, k int) [][]item {
		out := [][]item{nil}
		if k == 0 {
			return out
		}
		for _, s := range seqs(items, k-1) {
			if len(s) == k-1 {
				for _, it := range items {
					out = append(out, append(append([]item{}, s...), it))
				}
			}
		}
		// all shorter ones are contained in the recursion result as well
		seen := map[string]bool{}
		var uniq [][]item
		for _, s := range append(out, seqs(items, k-1)...) {
			key := fmt.Sprint(len(s), s)
			if !seen[key] {
				seen[key] = true
				uniq = append(uniq, s)
			}
		}
		return uniq
	}
	// grandchild-free children
	var children []*elem
	for di, ds := range declSets {
		for _, nm := range [][2]string{{"", "b"}, {"p", "c"}} {
			for ai, as := range [][]attr{nil, {{"", "x", "1"}}, {{"p", "y", "2&"}, {"xml", "lang", "en"}}} {
				for ci, cs := range seqs(leafItems[:3], *n-1) {
					if (di+ai+ci)%3 != 0 && len(cs) > 1 {
						continue // thin out
					}
					children = append(children, &elem{prefix: nm[0], local: nm[1], decls: ds, attrs: as, content: cs})
				}
			}
		}
	}
	usesP := func(e *elem) bool {
		if e.prefix == "p" {
			return true
		}
		for _, a := range e.attrs {
			if a.prefix == "p" {
				return true
			}
		}
		return false
	}
	declaresP := func(ds []decl) bool {
		for _, d := range ds {
			if d.prefix == "p" {
				return true
			}
		}
		return false
	}
	prologs := []string{"", `<?xml version="1.0"?>`, "<?xml version=\"1.0\" encoding=\"UTF-8\"?>\n<!DOCTYPE a>\n<!--pre-->\n", "\n <?pre x?>\n"}
	epilogs := []string{"", "\n<!--post--> <?post y?>\n"}
	for ri, rds := range declSets {
		for _, rnm := range [][2]string{{"", "a"}, {"p", "a"}} {
			if rnm[0] == "p" && !declaresP(rds) {
				continue
			}
			for ci, ch := range children {
				if usesP(ch) && !declaresP(rds) && !declaresP(ch.decls) {
					continue // not namespace-conformant
				}
				for si, cs := range seqs(leafItems, 2) {
					if (ri+ci+si)%7 != 0 {
						continue // thin out
					}
					// the child is placed between the items of cs
					for pos := 0; pos <= len(cs); pos++ {
						content := append(append(append([]item{}, cs[:pos]...), item{kind: 'e', elem: ch}), cs[pos:]...)
						root := &elem{prefix: rnm[0], local: rnm[1], decls: rds, content: content}
						if ri%2 == 1 {
							root.attrs = []attr{{"", "id", "r<"}}
						}
						docs++
						var body strings.Builder
						root.serialise(&body)
						pi, ei := (ri+ci+pos)%len(prologs), (ci+si)%len(epilogs)
						want := &xnode{kind: 'r'}
						switch pi {
						case 2:
							want.children = append(want.children, &xnode{kind: 'm', value: "pre"})
						case 3:
							want.children = append(want.children, &xnode{kind: 'p', local: "pre", value: "x"})
						}
						want.children = append(want.children, expect(root, map[string]string{}))
						if ei == 1 {
							want.children = append(want.children, &xnode{kind: 'm', value: "post"}, &xnode{kind: 'p', local: "post", value: "y"})
						}
						src := prologs[pi] + body.String() + epilogs[ei]
						check([]byte(src), src, want)
					}
				}
			}
		}
	}
	// encodings: an 8-bit document with a declaration, non-ASCII text and attribute value
	for _, enc := range []string{"ISO-8859-1", "windows-1252", "iso-8859-15"} {
		src := `<?xml version="1.0" encoding="` + enc + `"?><a v="` + "é" + `">` + "été" + `</a>`
		b, _ := latin1(src)
		want := &xnode{kind: 'r', children: []*xnode{{kind: 'e', local: "a", ns: map[string]string{"xml": xmlURI}, attrs: []xattr{{"", "v", "é"}}, children: []*xnode{{kind: 't', value: "été"}}}}}
		check(b, "encoding "+enc, want)
	}
	// malformed input must be rejected
	malformed := []string{"<a>", "<a><b></a>", "<a></b>", "<a>&undefined;</a>", "<a>\x01</a>", "<a b=1/>", "<a b='1' b='2'/>x<", "<a><!-- -- --></a>", "<?xml version=\"1.0\" encoding=\"no-such-charset\"?><a/>",
		"<a>\xff\xfe</a>", "<a", "<a><![CDATA[x</a>", "</a>", "<a>&#0;</a>", "<a><?pi</a>"}
	for _, m := range malformed {
		reads++
		var err error
		func() {
			defer func() {
				if r := recover(); r != nil {
					err = nil
					fails = append(fails, failure{m, fmt.Sprintf("PANIC: %v", r)})
				}
			}()
			_, err = xsel.ReadXml(strings.NewReader(m))
		}()
		if err == nil {
			fails = append(fails, failure{m, "malformed input accepted with a nil error"})
		}
	}
	sum := map[string]interface{}{
		"what":      "ReadXml vs the XPath 1.0 data model of enumerated abstract documents; malformed inputs must error",
		"bound":     fmt.Sprintf("document element with 7 declaration sets x 2 names, one child element (7 declaration sets x 2 names x 3 attribute sets x content of up to %d items) placed at every position among up to 2 sibling items from 6 kinds; 4 prologs, 2 epilogs; 3 encodings; %d malformed inputs (thinned deterministically)", *n-1, len(malformed)),
		"documents": docs,
		"reads":     reads,
		"failures":  fails,
	}
	b, _ := json.MarshalIndent(sum, "", " ")
	if *outPath != "" {
		os.WriteFile(*outPath, b, 0o644)
	}
	fmt.Println(string(b))
	if len(fails) > 0 {
		os.Exit(1)
	}
}
