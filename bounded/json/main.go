// Bounded stand-in for the JSON-to-tree mapping of ReadJson (property C16).  NOT a proof; labelled "bounded" in the
// evidence.  Every JSON value up to a stated nesting depth and width over a set of scalars and keys (empty, duplicate,
// unusual) is rendered (compact and spaced), read with the real xsel.ReadJson and compared with the documented
// #obj/#arr tree computed from the VALUE; sequences of several top-level values are read too.  Every proper prefix of
// every rendering, and a list of malformed texts, must be reported as an error unless the prefix is itself a
// sequence of complete JSON values.
package main

import (
	"encoding/json"
	"flag"
	"fmt"
	"os"
	"strings"

	"github.com/ChrisTrenkamp/xsel"
	"github.com/ChrisTrenkamp/xsel/node"
	"github.com/ChrisTrenkamp/xsel/store"
)

type jv struct {
	kind  byte   // 'o' object, 'a' array, 's' scalar
	text  string // source text of a scalar
	value string // expected text node value of a scalar
	keys  []string
	items []*jv
}

type xn struct {
	elem     bool
	name     string
	children []*xn
}

func expect(v *jv) *xn {
	switch v.kind {
	case 'o':
		n := &xn{elem: true, name: "#obj"}
		for i, k := range v.keys {
			var ks string
			json.Unmarshal([]byte(k), &ks)
			n.children = append(n.children, &xn{elem: true, name: ks, children: []*xn{expect(v.items[i])}})
		}
		return n
	case 'a':
		n := &xn{elem: true, name: "#arr"}
		for _, it := range v.items {
			n.children = append(n.children, expect(it))
		}
		return n
	}
	return &xn{name: v.value}
}

func render(v *jv, sp string, sb *strings.Builder) {
	switch v.kind {
	case 'o':
		sb.WriteString("{" + sp)
		for i, k := range v.keys {
			if i > 0 {
				sb.WriteString("," + sp)
			}
			sb.WriteString(k + sp + ":" + sp)
			render(v.items[i], sp, sb)
		}
		sb.WriteString(sp + "}")
	case 'a':
		sb.WriteString("[" + sp)
		for i, it := range v.items {
			if i > 0 {
				sb.WriteString("," + sp)
			}
			render(it, sp, sb)
		}
		sb.WriteString(sp + "]")
	default:
		sb.WriteString(v.text)
	}
}

func compare(c store.Cursor, want *xn, parent store.Cursor, path string) string {
	if c.Parent() != parent {
		return path + ": Parent() is not the node that lists it"
	}
	if len(c.Attributes()) != 0 || len(c.Namespaces()) != 0 {
		return path + ": attributes or namespace nodes in a JSON tree"
	}
	if want.elem {
		e, ok := c.Node().(node.Element)
		if !ok || e.Local() != want.name || e.Space() != "" {
			return fmt.Sprintf("%s: want element %q, got %T %v", path, want.name, c.Node(), c.Node())
		}
	} else {
		t, ok := c.Node().(node.CharData)
		if !ok || t.CharDataValue() != want.name {
			return fmt.Sprintf("%s: want text %q, got %T %v", path, want.name, c.Node(), c.Node())
		}
	}
	ch := c.Children()
	if len(ch) != len(want.children) {
		return fmt.Sprintf("%s: %d children, want %d", path, len(ch), len(want.children))
	}
	for i, x := range ch {
		if m := compare(x, want.children[i], c, fmt.Sprintf("%s/%d", path, i)); m != "" {
			return m
		}
	}
	return ""
}

type failure struct {
	Doc  string `json:"doc"`
	What string `json:"what"`
}

func read(src string) (c store.Cursor, err error, pan string) {
	defer func() {
		if r := recover(); r != nil {
			pan = fmt.Sprint(r)
		}
	}()
	c, err = xsel.ReadJson(strings.NewReader(src))
	return
}

// is s a (possibly empty) sequence of complete JSON values?
func completeSequence(s string) bool {
	d := json.NewDecoder(strings.NewReader(s))
	for {
		var v interface{}
		err := d.Decode(&v)
		if err != nil {
			return err.Error() == "EOF"
		}
	}
}

func main() {
	depth := flag.Int("n", 2, "maximal nesting depth of containers")
	outPath := flag.String("o", "", "write the JSON summary here")
	knownFlag := flag.String("known", "", "comma-separated defect classes listed in known-findings.json")
	flag.Parse()
	scalars := []*jv{{kind: 's', text: `"s"`, value: "s"}, {kind: 's', text: `""`, value: ""}, {kind: 's', text: `1`, value: "1"}, {kind: 's', text: `-0.5e3`, value: "-500"},
		{kind: 's', text: `1e21`, value: "1e+21"}, {kind: 's', text: `true`, value: "true"}, {kind: 's', text: `false`, value: "false"}, {kind: 's', text: `null`, value: "null"},
		{kind: 's', text: `"é\"\n"`, value: "é\"\n"}, {kind: 's', text: `0.1`, value: "0.1"}}
	keySets := [][]string{{`"a"`}, {`"a"`, `"b"`}, {`"a"`, `"a"`}, {`""`, `"#obj"`}, {`"k k"`, `"1"`, `"é"`}}
	level := [][]*jv{scalars}
	for d := 1; d <= *depth; d++ {
		var prev []*jv
		for _, l := range level {
			prev = append(prev, l...)
		}
		// a thinned selection of children keeps the number of values bounded
		pick := func(i int) *jv { return prev[(i*7+d)%len(prev)] }
		var cur []*jv
		cur = append(cur, &jv{kind: 'o'}, &jv{kind: 'a'})
		n := 0
		for _, ks := range keySets {
			for rep := 0; rep < 6*d; rep++ {
				o := &jv{kind: 'o', keys: ks}
				for range ks {
					o.items = append(o.items, pick(n))
					n++
				}
				cur = append(cur, o)
			}
		}
		for w := 1; w <= 3; w++ {
			for rep := 0; rep < 8*d; rep++ {
				a := &jv{kind: 'a'}
				for i := 0; i < w; i++ {
					a.items = append(a.items, pick(n))
					n++
				}
				cur = append(cur, a)
			}
		}
		// every scalar once as an only member / only item
		for _, s := range scalars {
			cur = append(cur, &jv{kind: 'o', keys: []string{`"k"`}, items: []*jv{s}}, &jv{kind: 'a', items: []*jv{s, s}})
		}
		level = append(level, cur)
	}
	var fails []failure
	values, reads, prefixes := 0, 0, 0
	var all []*jv
	for _, l := range level {
		all = append(all, l...)
	}
	for vi, v := range all {
		values++
		for _, sp := range []string{"", " \n\t"} {
			var sb strings.Builder
			render(v, sp, &sb)
			src := sb.String()
			want := &xn{elem: true, children: []*xn{expect(v)}}
			// a second top-level value every now and then
			if vi%5 == 0 {
				w := all[(vi*3+1)%len(all)]
				sb.WriteString(" ")
				render(w, sp, &sb)
				src = sb.String()
				want.children = append(want.children, expect(w))
			}
			reads++
			c, err, pan := read(src)
			switch {
			case pan != "":
				fails = append(fails, failure{src, "PANIC: " + pan})
			case err != nil:
				fails = append(fails, failure{src, "valid JSON rejected: " + err.Error()})
			default:
				// the root node is not an element: compare its children
				ch := c.Children()
				if len(ch) != len(want.children) {
					fails = append(fails, failure{src, fmt.Sprintf("%d top-level nodes, want %d", len(ch), len(want.children))})
				} else {
					for i, x := range ch {
						if m := compare(x, want.children[i], c, fmt.Sprintf("/%d", i)); m != "" {
							fails = append(fails, failure{src, m})
							break
						}
					}
				}
			}
			if sp == "" && len(src) <= 40 {
				for cut := 1; cut < len(src); cut++ {
					p := src[:cut]
					if completeSequence(p) {
						continue
					}
					prefixes++
					_, err, pan := read(p)
					if pan != "" {
						fails = append(fails, failure{p, "PANIC: " + pan})
					} else if err == nil {
						fails = append(fails, failure{p, "truncated JSON accepted with a nil error"})
					}
				}
			}
			if len(fails) > 25 {
				break
			}
		}
		if len(fails) > 25 {
			break
		}
	}
	malformed := []string{`{"a" 1}`, `{"a":1,}`, `[1,]`, `[1 2]`, `{1:2}`, `{"a":}`, `]`, `}`, `{"a":1]`, `[1}`, `tru`, `"abc`, `01`, `1.`, `{"a":1}}`, `[`, `{`, `{"a"`, `{"a":`, `nul`, `-`, `"\x"`, `[1,,2]`}
	for _, m := range malformed {
		reads++
		_, err, pan := read(m)
		if pan != "" {
			fails = append(fails, failure{m, "PANIC: " + pan})
		} else if err == nil {
			fails = append(fails, failure{m, "malformed JSON accepted with a nil error"})
		}
	}
	type classInfo struct {
		Count   int    `json:"count"`
		Witness string `json:"witness"`
		Listed  bool   `json:"listed_as_known_finding"`
	}
	classes := map[string]*classInfo{}
	var rest []failure
	for _, f := range fails {
		cls := ""
		if f.Doc == "01" && strings.HasPrefix(f.What, "malformed JSON accepted") {
			cls = "number-with-leading-zero-read-as-two-values"
		}
		listed := cls != "" && strings.Contains(","+*knownFlag+",", ","+cls+",")
		if cls != "" {
			if classes[cls] == nil {
				classes[cls] = &classInfo{Witness: f.Doc, Listed: listed}
			}
			classes[cls].Count++
		}
		if !listed {
			rest = append(rest, f)
		}
	}
	fails = rest
	sum := map[string]interface{}{
		"known_classes":     classes,
		"what":              "ReadJson vs the documented #obj/#arr tree of enumerated JSON values; truncated and malformed texts must error",
		"bound":             fmt.Sprintf("containers nested up to depth %d, objects over 5 key sets (incl. duplicate, empty, '#obj'), arrays of width 1-3, 10 scalars (deterministically thinned), compact and spaced renderings, every fifth value followed by a second top-level value; every proper prefix of renderings up to 40 bytes; %d malformed texts", *depth, len(malformed)),
		"values":            values,
		"reads":             reads,
		"truncations_tried": prefixes,
		"failures":          fails,
	}
	b, _ := json.MarshalIndent(sum, "", " ")
	if *outPath != "" {
		os.WriteFile(*outPath, b, 0o644)
	}
	fmt.Println(string(b))
	if len(fails) > 0 {
		os.Exit(1)
	}
}
