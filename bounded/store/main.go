// Bounded stand-in for the event loop of store.createInMemory (property C10): every event stream that
// satisfies the documented Parser contract, up to a stated number of events, is fed to the real
// store.CreateInMemory and the resulting tree is compared with an independently built reference tree and
// checked against the Cursor contract.  This is NOT a proof; it is labelled "bounded" in the evidence.
package main

import (
	"encoding/json"
	"flag"
	"fmt"
	"io"
	"os"

	"github.com/ChrisTrenkamp/xsel/node"
	"github.com/ChrisTrenkamp/xsel/store"
)

type elem struct{ space, local string }

func (e elem) Space() string { return e.space }
func (e elem) Local() string { return e.local }

type nsn struct{ prefix, value string }

func (n nsn) Prefix() string         { return n.prefix }
func (n nsn) NamespaceValue() string { return n.value }

type attr struct{ space, local, value string }

func (a attr) Space() string          { return a.space }
func (a attr) Local() string          { return a.local }
func (a attr) AttributeValue() string { return a.value }

type text struct{ v string }

func (t text) CharDataValue() string { return t.v }

type comment struct{ v string }

func (c comment) CommentValue() string { return c.v }

// event kinds: 0 start element, 1 end, 2 namespace p1, 3 namespace p2, 4 attribute, 5 text, 6 comment,
// 7 undeclaration of p (a namespace event with an empty URI: the element and its descendants have no node for p)
type scripted struct {
	ev []int
	i  int
}

func (s *scripted) Pull() (node.Node, bool, error) {
	if s.i >= len(s.ev) {
		return nil, false, io.EOF
	}
	k := s.ev[s.i]
	s.i++
	switch k {
	case 0:
		return elem{"", fmt.Sprintf("e%d", s.i)}, false, nil
	case 1:
		return nil, true, nil
	case 2:
		return nsn{"p", fmt.Sprintf("u%d", s.i)}, false, nil
	case 3:
		return nsn{"q", fmt.Sprintf("w%d", s.i)}, false, nil
	case 7:
		return nsn{"p", ""}, false, nil
	case 4:
		return attr{"", fmt.Sprintf("a%d", s.i), "v"}, false, nil
	case 5:
		return text{fmt.Sprintf("t%d", s.i)}, false, nil
	}
	return comment{"c"}, false, nil
}

// reference tree built directly from the event list
type ref struct {
	kind     int // 0 element/root, 2.. as events
	name     string
	parent   *ref
	ns       map[string]string // in-scope prefix -> value (own + inherited)
	nsOrder  []string
	attrs    []string
	children []*ref
}

func buildRef(ev []int) *ref {
	root := &ref{ns: map[string]string{}}
	cur := root
	for i, k := range ev {
		id := i + 1
		switch k {
		case 0:
			e := &ref{name: fmt.Sprintf("e%d", id), parent: cur, ns: map[string]string{}}
			cur.children = append(cur.children, e)
			cur = e
		case 1:
			if cur.parent != nil {
				cur = cur.parent
			}
		case 2:
			cur.ns["p"] = fmt.Sprintf("u%d", id)
		case 3:
			cur.ns["q"] = fmt.Sprintf("w%d", id)
		case 7:
			cur.ns["p"] = ""
		case 4:
			cur.attrs = append(cur.attrs, fmt.Sprintf("a%d", id))
		case 5:
			cur.children = append(cur.children, &ref{kind: 5, name: fmt.Sprintf("t%d", id), parent: cur})
		case 6:
			cur.children = append(cur.children, &ref{kind: 6, name: "c", parent: cur})
		}
	}
	// inheritance
	var inh func(r *ref)
	inh = func(r *ref) {
		if r.parent != nil && r.kind == 0 {
			for p, v := range r.parent.ns {
				if _, ok := r.ns[p]; !ok {
					r.ns[p] = v
				}
			}
		}
		for p, v := range r.ns {
			if v == "" {
				delete(r.ns, p) // undeclared: no node here, nothing for the descendants to inherit
			}
		}
		for _, c := range r.children {
			inh(c)
		}
	}
	inh(root)
	return root
}

// conforming: namespaces before attributes before children of the same element
func conforming(ev []int) bool {
	type st struct{ phase int } // 0 ns allowed, 1 attrs allowed, 2 children only
	stack := []st{{2}}          // root: no namespaces / attributes
	for _, k := range ev {
		top := &stack[len(stack)-1]
		switch k {
		case 0:
			top.phase = 2
			stack = append(stack, st{0})
		case 1:
			if len(stack) > 1 {
				stack = stack[:len(stack)-1]
			}
		case 2, 3, 7:
			if top.phase > 0 {
				return false
			}
		case 4:
			if top.phase > 1 {
				return false
			}
			top.phase = 1
		default:
			top.phase = 2
		}
	}
	return true
}

type failure struct {
	Events []int  `json:"events"`
	What   string `json:"what"`
}

func check(ev []int) (fail string) {
	defer func() {
		if r := recover(); r != nil {
			fail = fmt.Sprintf("panic: %v", r)
		}
	}()
	rootC, err := store.CreateInMemory(&scripted{ev: ev})
	if err != nil {
		return "unexpected error: " + err.Error()
	}
	want := buildRef(ev)
	seen := map[store.Cursor]bool{}
	last := -1
	var walk func(c store.Cursor, r *ref, parent store.Cursor) string
	walk = func(c store.Cursor, r *ref, parent store.Cursor) string {
		if seen[c] {
			return "cursor listed twice"
		}
		seen[c] = true
		if c.Pos() <= last {
			return fmt.Sprintf("position %d does not increase in document order (previous %d)", c.Pos(), last)
		}
		last = c.Pos()
		if parent != nil && c.Parent() != parent {
			return "Parent() of a listed cursor is not the lister"
		}
		if r.kind == 0 {
			nss := c.Namespaces()
			if len(nss) != len(r.ns) {
				return fmt.Sprintf("element has %d namespace nodes, %d prefixes are in scope", len(nss), len(r.ns))
			}
			for _, n := range nss {
				if seen[n] {
					return "namespace node shared between elements"
				}
				seen[n] = true
				if n.Pos() <= last {
					return "namespace node position not increasing"
				}
				last = n.Pos()
				if n.Parent() != c {
					return "namespace node does not belong to its element"
				}
				nn, ok := n.Node().(node.Namespace)
				if !ok || r.ns[nn.Prefix()] != nn.NamespaceValue() {
					return "wrong namespace binding in scope"
				}
			}
			as := c.Attributes()
			if len(as) != len(r.attrs) {
				return "attribute count differs"
			}
			for i, a := range as {
				if seen[a] || a.Pos() <= last || a.Parent() != c {
					return "attribute position/parent"
				}
				seen[a] = true
				last = a.Pos()
				if an, ok := a.Node().(node.Attribute); !ok || an.Local() != r.attrs[i] {
					return "attribute order differs"
				}
			}
		} else if len(c.Namespaces())+len(c.Attributes())+len(c.Children()) != 0 {
			return "non-element with lists"
		}
		ch := c.Children()
		if len(ch) != len(r.children) {
			return fmt.Sprintf("child count %d, stream nesting gives %d", len(ch), len(r.children))
		}
		for i, x := range ch {
			rc := r.children[i]
			switch v := x.Node().(type) {
			case node.Element:
				if rc.kind != 0 || v.Local() != rc.name {
					return "child kind/name differs"
				}
			case node.CharData:
				if rc.kind != 5 || v.CharDataValue() != rc.name {
					return "text child differs"
				}
			case node.Comment:
				if rc.kind != 6 {
					return "comment child differs"
				}
			default:
				return "unexpected child node"
			}
			if f := walk(x, rc, c); f != "" {
				return f
			}
		}
		return ""
	}
	if rootC.Pos() != 0 {
		return "root position is not 0"
	}
	return walk(rootC, want, nil)
}

func main() {
	max := flag.Int("n", 7, "maximum number of events")
	out := flag.String("o", "", "JSON summary file")
	flag.Parse()
	total, conf := 0, 0
	var fails []failure
	var rec func(ev []int)
	rec = func(ev []int) {
		total++
		if conforming(ev) {
			conf++
			if f := check(ev); f != "" && len(fails) < 20 {
				fails = append(fails, failure{append([]int{}, ev...), f})
			}
		} else {
			return // extensions of a non-conforming stream are non-conforming
		}
		if len(ev) == *max {
			return
		}
		for k := 0; k < 8; k++ {
			rec(append(ev, k))
		}
	}
	rec(nil)
	// a long flat stream: stack use must not grow with the number of nodes
	flat := make([]int, 0, 4000002)
	flat = append(flat, 0)
	for i := 0; i < 1000000; i++ {
		flat = append(flat, 0, 1)
	}
	flat = append(flat, 1)
	if _, err := store.CreateInMemory(&scripted{ev: flat}); err != nil {
		fails = append(fails, failure{nil, "flat stream of 10^6 elements: " + err.Error()})
	}
	sum := map[string]interface{}{"max_events": *max, "streams_enumerated": total, "conforming_streams_checked": conf, "failures": fails, "flat_stream_elements": 1000000}
	b, _ := json.MarshalIndent(sum, "", " ")
	if *out != "" {
		os.WriteFile(*out, b, 0o644)
	}
	fmt.Println(string(b))
	if len(fails) > 0 {
		os.Exit(1)
	}
}
