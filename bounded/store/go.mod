module bounded/store

go 1.20

require github.com/ChrisTrenkamp/xsel v0.0.0

require (
	golang.org/x/net v0.19.0 // indirect
	golang.org/x/text v0.14.0 // indirect
)

replace github.com/ChrisTrenkamp/xsel => /repo
