// Bounded stand-in for Unmarshal (property C19): reflection is outside the reach of the contract verifier (no model
// of package reflect).  NOT a proof; labelled "bounded" in the evidence.  A battery of target types built from every
// supported kind, pointer depths 0-2, slices, nested structs and untagged fields is filled from several documents and
// compared with the values obtained by evaluating each tag expression directly with xsel.Exec and converting as the
// property states; every listed kind of unsupported target and wrongly shaped result must yield an error and never a
// panic.  A self-referential target type whose tag does not descend is probed in a child process (it overflows the
// stack; recorded as a known finding).
package main

import (
	"encoding/json"
	"flag"
	"fmt"
	"math"
	"os"
	"os/exec"
	"reflect"
	"runtime/debug"
	"strings"

	"github.com/ChrisTrenkamp/xsel"
)

const doc1 = `<r a="7" b="-2.5" t="true"><s>hello</s><n>42</n><n>43</n><n>300</n><e/><p><q>1</q><q>2</q></p><f>1.5</f></r>`
const doc2 = `<r a="1e3" b="x"><s/><n>-1</n><p/></r>`

type inner struct {
	Q     []int  `xsel:"q"`
	First string `xsel:"q[1]"`
	Keep  string
}

type all struct {
	S    string   `xsel:"s"`
	B    bool     `xsel:"e"`
	B2   bool     `xsel:"missing"`
	I    int      `xsel:"n"`
	I8   int8     `xsel:"n[1]"`
	I16  int16    `xsel:"n[3]"`
	I32  int32    `xsel:"@a"`
	I64  int64    `xsel:"@a * 2"`
	U    uint     `xsel:"@a"`
	U8   uint8    `xsel:"@a"`
	U16  uint16   `xsel:"n[3]"`
	U32  uint32   `xsel:"@a"`
	U64  uint64   `xsel:"@a"`
	F32  float32  `xsel:"f"`
	F64  float64  `xsel:"@b"`
	PS   *string  `xsel:"s"`
	PPI  **int    `xsel:"n[2]"`
	Ns   []int    `xsel:"n"`
	Ss   []string `xsel:"n"`
	PNs  []*int   `xsel:"n"`
	In   inner    `xsel:"p"`
	PIn  *inner   `xsel:"p"`
	Ins  []inner  `xsel:"p"`
	Big  uint64   `xsel:"10000000000000000000"`
	Big2 uint     `xsel:"18446744073709549568"`
	PBig *uint64  `xsel:"9223372036854775808"`
	Min  int64    `xsel:"-9223372036854775808"`
	Cnt  float64  `xsel:"count(n)"`
	Str  string   `xsel:"string(@t)"`
	Keep string
	keep int
}

type failure struct {
	Case string `json:"case"`
	What string `json:"what"`
}

var fails []failure

func failf(c, f string, a ...interface{}) { fails = append(fails, failure{c, fmt.Sprintf(f, a...)}) }

func mustNodes(cur xsel.Cursor, q string) xsel.NodeSet {
	g := xsel.MustBuildExpr(q)
	ns, err := xsel.ExecAsNodeset(cur, &g)
	if err != nil {
		panic(err)
	}
	return ns
}

func evalFrom(n xsel.Cursor, q string) xsel.Result {
	g := xsel.MustBuildExpr(q)
	r, err := xsel.Exec(n, &g)
	if err != nil {
		panic(err)
	}
	return r
}

func safely(c string, f func() error) (err error, panicked bool) {
	defer func() {
		if r := recover(); r != nil {
			failf(c, "PANIC: %v", r)
			panicked = true
		}
	}()
	return f(), false
}

// expected value of a field of the given type for result r (as the property states)
func conv(t reflect.Type, r xsel.Result) interface{} {
	switch t.Kind() {
	case reflect.String:
		return r.String()
	case reflect.Bool:
		return r.Bool()
	case reflect.Float64:
		return r.Number()
	case reflect.Float32:
		return float32(r.Number())
	case reflect.Int, reflect.Int8, reflect.Int16, reflect.Int32, reflect.Int64:
		return reflect.ValueOf(int64(r.Number())).Convert(t).Interface()
	case reflect.Uint, reflect.Uint8, reflect.Uint16, reflect.Uint32, reflect.Uint64:
		f := r.Number()
		if f < 0 || math.IsNaN(f) {
			return nil // conversion of a negative/NaN double to an unsigned type is implementation defined: not compared
		}
		return reflect.ValueOf(uint64(f)).Convert(t).Interface()
	}
	return nil
}

func checkStruct(c string, node xsel.Cursor, v reflect.Value) {
	t := v.Type()
	for i := 0; i < t.NumField(); i++ {
		f := t.Field(i)
		tag := f.Tag.Get("xsel")
		fv := v.Field(i)
		if tag == "" {
			if f.Name == "Keep" && fv.String() != "kept" && !strings.Contains(c, ".PIn") && !strings.Contains(c, ".Ins[") {
				failf(c, "untagged field %s was changed to %q", f.Name, fv.String())
			}
			continue
		}
		res := evalFrom(node, tag)
		ft := f.Type
		depth := 0
		for ft.Kind() == reflect.Pointer {
			if fv.IsNil() {
				failf(c, "pointer field %s left nil", f.Name)
				break
			}
			fv = fv.Elem()
			ft = ft.Elem()
			depth++
		}
		if ft.Kind() == reflect.Pointer {
			continue
		}
		switch ft.Kind() {
		case reflect.Struct:
			ns, ok := res.(xsel.NodeSet)
			if !ok || len(ns) != 1 {
				failf(c, "field %s: tag result is not a one-node node-set in this document", f.Name)
				continue
			}
			checkStruct(c+"."+f.Name, ns[0], fv)
		case reflect.Slice:
			ns, ok := res.(xsel.NodeSet)
			if !ok {
				continue
			}
			if fv.Len() != len(ns) {
				failf(c, "field %s: %d elements, the tag selects %d nodes", f.Name, fv.Len(), len(ns))
				continue
			}
			for k := 0; k < fv.Len(); k++ {
				ev := fv.Index(k)
				et := ft.Elem()
				for et.Kind() == reflect.Pointer {
					if ev.IsNil() {
						failf(c, "field %s[%d] is a nil pointer", f.Name, k)
						break
					}
					ev, et = ev.Elem(), et.Elem()
				}
				if et.Kind() == reflect.Struct {
					checkStruct(fmt.Sprintf("%s.%s[%d]", c, f.Name, k), ns[k], ev)
				} else if want := conv(et, xsel.NodeSet{ns[k]}); want != nil && !reflect.DeepEqual(ev.Interface(), want) {
					failf(c, "field %s[%d] = %v, want %v", f.Name, k, ev.Interface(), want)
				}
			}
		default:
			if want := conv(ft, res); want != nil && !reflect.DeepEqual(fv.Interface(), want) {
				if fl, ok := want.(float64); ok && math.IsNaN(fl) && math.IsNaN(fv.Float()) {
					continue
				}
				failf(c, "field %s = %v, want %v (tag %s)", f.Name, fv.Interface(), want, tag)
			}
		}
	}
}

type recursive struct {
	Next *recursive `xsel:"."`
}

func main() {
	outPath := flag.String("o", "", "write the JSON summary here")
	flag.Int("n", 0, "unused (the battery is fixed)")
	knownFlag := flag.String("known", "", "comma-separated defect classes listed in known-findings.json")
	probe := flag.Bool("probe-recursion", false, "internal: run the self-referential target in this process")
	flag.Parse()
	if *probe {
		debug.SetMaxStack(16 << 20)
		cur, _ := xsel.ReadXml(strings.NewReader(doc1))
		var r recursive
		err := xsel.Unmarshal(mustNodes(cur, "/r"), &r)
		fmt.Println("returned", err)
		return
	}
	cases := 0
	for di, d := range []string{doc1, doc2} {
		cur, err := xsel.ReadXml(strings.NewReader(d))
		if err != nil {
			panic(err)
		}
		root := mustNodes(cur, "/r")
		// 1. the full battery through a pointer, a pointer to a pointer, and as slice elements
		name := fmt.Sprintf("doc%d/all", di+1)
		cases++
		var a all
		a.Keep, a.In.Keep = "kept", "kept"
		if di == 0 { // doc2 has no one-node results for every struct field
			if err, p := safely(name, func() error { return xsel.Unmarshal(root, &a) }); !p {
				if err != nil {
					failf(name, "unexpected error: %v", err)
				} else {
					checkStruct(name, root[0], reflect.ValueOf(a))
				}
			}
			cases++
			pa := &all{Keep: "kept"}
			pa.In.Keep = "kept"
			ppa := &pa
			if err, p := safely(name+"/ptrptr", func() error { return xsel.Unmarshal(root, ppa) }); !p {
				if err != nil {
					failf(name+"/ptrptr", "unexpected error: %v", err)
				} else {
					checkStruct(name+"/ptrptr", root[0], reflect.ValueOf(*pa))
				}
			}
		}
		// 2. slice targets: one element per node, in order
		cases++
		ns := mustNodes(cur, "/r/n")
		var ints []int
		var strs []string
		var ptrs []*float64
		var structs []struct {
			V string `xsel:"."`
			K int
		}
		for _, tc := range []struct {
			n string
			f func() error
		}{{"[]int", func() error { return xsel.Unmarshal(ns, &ints) }}, {"[]string", func() error { return xsel.Unmarshal(ns, &strs) }}, {"[]*float64", func() error { return xsel.Unmarshal(ns, &ptrs) }},
			{"[]struct", func() error { return xsel.Unmarshal(ns, &structs) }}} {
			if err, p := safely(name+"/"+tc.n, tc.f); !p && err != nil {
				failf(name+"/"+tc.n, "unexpected error: %v", err)
			}
		}
		if len(ints) != len(ns) || len(strs) != len(ns) || len(ptrs) != len(ns) || len(structs) != len(ns) {
			failf(name, "slice targets have %d/%d/%d/%d elements for %d nodes", len(ints), len(strs), len(ptrs), len(structs), len(ns))
		} else {
			for i, n := range ns {
				one := xsel.NodeSet{n}
				if ints[i] != int(one.Number()) || strs[i] != one.String() || ptrs[i] == nil || *ptrs[i] != one.Number() || structs[i].V != one.String() {
					failf(name, "slice element %d differs from node %d", i, i)
				}
			}
		}
		// 3. targets that cannot be filled, and results of the wrong shape: an error, never a panic
		var nilPtr *all
		var m map[string]string
		var arr [2]int
		var ch chan int
		var multi [][]int
		var iface interface{}
		type unexported struct {
			v string `xsel:"s"`
		}
		type unexportedStruct struct {
			in inner `xsel:"p"`
		}
		type unexportedPtr struct {
			in *inner `xsel:"p"`
		}
		var nilInnerSlice *[]string
		var nilMid **struct{}
		type withMap struct {
			M map[string]int `xsel:"s"`
		}
		type withArr struct {
			A [2]int `xsel:"n"`
		}
		type withMulti struct {
			A [][]int `xsel:"n"`
		}
		type withIface struct {
			A interface{} `xsel:"s"`
		}
		type withFunc struct {
			A func() `xsel:"s"`
		}
		type badTag struct {
			A string `xsel:"((("`
		}
		type twoNodes struct {
			In inner `xsel:"n"`
		}
		empty := mustNodes(cur, "/r/nothing")
		bad := []struct {
			n string
			f func() error
		}{
			{"struct by value", func() error { return xsel.Unmarshal(root, all{}) }},
			{"nil", func() error { return xsel.Unmarshal(root, nil) }},
			{"nil pointer", func() error { return xsel.Unmarshal(root, nilPtr) }},
			{"map", func() error { return xsel.Unmarshal(root, &m) }},
			{"array", func() error { return xsel.Unmarshal(root, &arr) }},
			{"channel", func() error { return xsel.Unmarshal(root, &ch) }},
			{"int", func() error { i := 0; return xsel.Unmarshal(root, &i) }},
			{"multi-dimensional slice", func() error { return xsel.Unmarshal(ns, &multi) }},
			{"multi-dimensional slice, empty node-set", func() error { return xsel.Unmarshal(empty, &multi) }},
			{"interface holding nil", func() error { return xsel.Unmarshal(root, &iface) }},
			{"unexported tagged field", func() error { return xsel.Unmarshal(root, &unexported{}) }},
			{"unexported tagged struct field", func() error { return xsel.Unmarshal(root, &unexportedStruct{}) }},
			{"unexported tagged pointer field", func() error { return xsel.Unmarshal(root, &unexportedPtr{}) }},
			{"pointer to a nil pointer to a slice", func() error { return xsel.Unmarshal(ns, &nilInnerSlice) }},
			{"pointer chain with a nil middle pointer", func() error { return xsel.Unmarshal(root, &nilMid) }},
			{"map field", func() error { return xsel.Unmarshal(root, &withMap{}) }},
			{"array field", func() error { return xsel.Unmarshal(root, &withArr{}) }},
			{"multi-dimensional slice field", func() error { return xsel.Unmarshal(root, &withMulti{}) }},
			{"interface field", func() error { return xsel.Unmarshal(root, &withIface{}) }},
			{"func field", func() error { return xsel.Unmarshal(root, &withFunc{}) }},
			{"malformed tag", func() error { return xsel.Unmarshal(root, &badTag{}) }},
			{"struct from a two-node node-set", func() error { return xsel.Unmarshal(ns, &all{}) }},
			{"struct field from a result that is not one node", func() error {
				if len(ns) == 1 {
					return xsel.Unmarshal(root, &struct {
						In inner `xsel:"nothing"`
					}{})
				}
				return xsel.Unmarshal(root, &twoNodes{})
			}},
			{"struct from a string", func() error { return xsel.Unmarshal(xsel.String("x"), &all{}) }},
			{"struct from an empty node-set", func() error { return xsel.Unmarshal(empty, &all{}) }},
			{"slice from a number", func() error { return xsel.Unmarshal(xsel.Number(1), &ints) }},
			{"slice by value", func() error { return xsel.Unmarshal(ns, ints) }},
		}
		for _, tc := range bad {
			cases++
			if err, p := safely(name+"/"+tc.n, tc.f); !p && err == nil {
				failf(name+"/"+tc.n, "no error for a target that cannot be filled / a result of the wrong shape")
			}
		}
	}
	// 3b. two different types that print the same name, one after the other (no state may be shared between calls)
	{
		cur, _ := xsel.ReadXml(strings.NewReader(doc1))
		root := mustNodes(cur, "/r")
		first := func() (string, error) {
			type Record struct {
				A string `xsel:"s"`
			}
			var r Record
			err := xsel.Unmarshal(root, &r)
			return r.A, err
		}
		second := func() (string, string, error) {
			type Record struct {
				X string `xsel:"@a"`
				Y string `xsel:"f"`
			}
			var r Record
			err := xsel.Unmarshal(root, &r)
			return r.X, r.Y, err
		}
		cases++
		var a, x, y string
		var e1, e2 error
		if _, p := safely("same-named types", func() error { a, e1 = first(); x, y, e2 = second(); return nil }); !p {
			if e1 != nil || e2 != nil || a != "hello" || x != "7" || y != "1.5" {
				failf("same-named types", "two local types named Record filled one after the other: got %q / %q %q (errors %v %v), want hello / 7 1.5", a, x, y, e1, e2)
			}
		}
	}
	// 4. self-referential type with a tag that does not descend: child process
	type classInfo struct {
		Count   int    `json:"count"`
		Witness string `json:"witness"`
		Listed  bool   `json:"listed_as_known_finding"`
	}
	classes := map[string]*classInfo{}
	cases++
	cmd := exec.Command(os.Args[0], "-probe-recursion")
	out, err := cmd.CombinedOutput()
	if err != nil || !strings.Contains(string(out), "returned") {
		cls := "self-referential-target-type-recurses-without-bound"
		listed := strings.Contains(","+*knownFlag+",", ","+cls+",")
		classes[cls] = &classInfo{1, "type T struct{ Next *T `xsel:\".\"` }", listed}
		if !listed {
			o := string(out)
			if len(o) > 300 {
				o = o[:300]
			}
			failf("recursive target", "the process died instead of returning an error: %v %s", err, o)
		}
	}
	sum := map[string]interface{}{
		"what":          "Unmarshal vs tag-by-tag evaluation with xsel.Exec; unsupported targets and wrong shapes must error without panic",
		"bound":         "a fixed battery: 31-field struct (every supported kind, pointer depth 0-2, slices of scalars/pointers/structs, nested and pointer-to struct, untagged fields) through *T and **T, four slice targets, 23 unsupported targets or wrong shapes, on 2 documents; one self-referential type in a child process",
		"cases":         cases,
		"evaluations":   cases,
		"distinct":      cases,
		"samples":       []string{"Unmarshal(/r, &all{...31 tagged fields...}) on " + doc1, "Unmarshal(/r/n, &[]*float64{})", "Unmarshal(/r, nil) must be an error", "Unmarshal(/r/n, &[][]int{}) must be an error"},
		"known_classes": classes,
		"failures":      fails,
	}
	b, _ := json.MarshalIndent(sum, "", " ")
	if *outPath != "" {
		os.WriteFile(*outPath, b, 0o644)
	}
	fmt.Println(string(b))
	if len(fails) > 0 {
		os.Exit(1)
	}
}
