// Bounded stand-in for the HTML-to-tree mapping of ReadHtml (property C17).  NOT a proof; labelled "bounded" in the
// evidence.  Documents are assembled from a set of markup fragments (tag soup, implied elements, void elements,
// foreign content, attributes with prefixes and xmlns declarations, comments before and after the root, entities)
// up to a stated number of fragments, parsed with golang.org/x/net/html (the reference named by the property) and
// read with the real xsel.ReadHtml; the cursor tree must equal the reference tree with local names only, attributes
// minus xmlns declarations and with prefixes stripped, the same text and comment nodes, everything in no namespace.
package main

import (
	"encoding/json"
	"flag"
	"fmt"
	"os"
	"strings"

	"github.com/ChrisTrenkamp/xsel"
	"github.com/ChrisTrenkamp/xsel/node"
	"github.com/ChrisTrenkamp/xsel/store"
	"golang.org/x/net/html"
)

func localName(s string) string {
	if i := strings.Index(s, ":"); i >= 0 {
		return s[i+1:]
	}
	return s
}

// compare the children of an html.Node (doctype nodes skipped) with the children of a cursor
func compareChildren(c store.Cursor, n *html.Node, path string) string {
	var ref []*html.Node
	for k := n.FirstChild; k != nil; k = k.NextSibling {
		if k.Type == html.DoctypeNode {
			continue
		}
		ref = append(ref, k)
	}
	ch := c.Children()
	if len(ch) != len(ref) {
		return fmt.Sprintf("%s: %d children, the HTML5 tree has %d", path, len(ch), len(ref))
	}
	for i, x := range ch {
		if x.Parent() != c {
			return fmt.Sprintf("%s/%d: Parent() is not the node that lists it", path, i)
		}
		if len(x.Namespaces()) != 0 {
			return fmt.Sprintf("%s/%d: namespace nodes in an HTML tree", path, i)
		}
		r := ref[i]
		p := fmt.Sprintf("%s/%d", path, i)
		switch r.Type {
		case html.ElementNode:
			e, ok := x.Node().(node.Element)
			if _, isAttr := x.Node().(node.Attribute); !ok || isAttr {
				return fmt.Sprintf("%s: want element %s, got %T", p, r.Data, x.Node())
			}
			if e.Space() != "" || e.Local() != localName(r.Data) {
				return fmt.Sprintf("%s: element {%s}%s, want %s", p, e.Space(), e.Local(), localName(r.Data))
			}
			var wantAttrs [][2]string
			for _, a := range r.Attr {
				if a.Key == "xmlns" || a.Namespace == "xmlns" || strings.HasPrefix(a.Key, "xmlns:") { // HTML5 "adjust foreign attributes": xmlns:xlink in svg/math is namespace "xmlns", key "xlink"
					continue
				}
				wantAttrs = append(wantAttrs, [2]string{localName(a.Key), a.Val})
			}
			as := x.Attributes()
			if len(as) != len(wantAttrs) {
				return fmt.Sprintf("%s: %d attributes, want %d (%v)", p, len(as), len(wantAttrs), wantAttrs)
			}
			for j, a := range as {
				an, ok := a.Node().(node.Attribute)
				if !ok || an.Space() != "" || an.Local() != wantAttrs[j][0] || an.AttributeValue() != wantAttrs[j][1] {
					return fmt.Sprintf("%s: attribute %d is %v, want %v", p, j, a.Node(), wantAttrs[j])
				}
			}
			if m := compareChildren(x, r, p); m != "" {
				return m
			}
		case html.TextNode:
			t, ok := x.Node().(node.CharData)
			if !ok || t.CharDataValue() != r.Data {
				return fmt.Sprintf("%s: want text %q, got %T %v", p, r.Data, x.Node(), x.Node())
			}
			if len(x.Children()) != 0 {
				return p + ": a text node has children"
			}
		case html.CommentNode:
			t, ok := x.Node().(node.Comment)
			if !ok || t.CommentValue() != r.Data {
				return fmt.Sprintf("%s: want comment %q, got %T %v", p, r.Data, x.Node(), x.Node())
			}
		default:
			return fmt.Sprintf("%s: reference node of type %d", p, r.Type)
		}
	}
	return ""
}

type failure struct {
	Doc  string `json:"doc"`
	What string `json:"what"`
}

func main() {
	n := flag.Int("n", 3, "number of fragments per document")
	outPath := flag.String("o", "", "write the JSON summary here")
	flag.Parse()
	frags := []string{"<p>a", "<b>b</i>", "<br>", "<img src=x alt='y z'>", "text &amp; more", "<!--c-->", "<table><tr><td>1<td>2</table>", "<svg xmlns='http://www.w3.org/2000/svg' xmlns:xlink='u' xlink:href='#a'><circle r=1 /></svg>",
		"<ul><li>1<li>2</ul>", "</div>", "<div class=k id=i>", "<title>t</title>", "<script>if (a<b) {}</script>", "<math><mi>x</mi></math>", "<select><option>o", "<a href=u>l<a href=v>m", "<textarea>\n x</textarea>", "<body bgcolor=red>", "<html lang=en>", "<head><meta charset=utf-8>", "<frameset>", "<template><p>t</template>", "<ruby>r<rt>t", "<!doctype html>", "<p xml:lang=de xmlns=foo>q", "<!---->x<!-->"}
	doctypes := []string{"<!DOCTYPE html>", "<!doctype html>\n", "<!DOCTYPE html PUBLIC \"-//W3C//DTD HTML 4.01//EN\">"}
	var fails []failure
	var samples []string
	distinct := map[string]bool{}
	docs := 0
	var gen func(prefix string, k int)
	check := func(src string) {
		docs++
		distinct[src] = true
		if docs%9973 == 1 && len(samples) < 5 {
			samples = append(samples, src)
		}
		ref, err := html.Parse(strings.NewReader(src))
		if err != nil {
			return
		}
		var cur store.Cursor
		var rerr error
		pan := ""
		func() {
			defer func() {
				if r := recover(); r != nil {
					pan = fmt.Sprint(r)
				}
			}()
			cur, rerr = xsel.ReadHtml(strings.NewReader(src))
		}()
		switch {
		case pan != "":
			fails = append(fails, failure{src, "PANIC: " + pan})
		case rerr != nil:
			fails = append(fails, failure{src, "document with a doctype rejected: " + rerr.Error()})
		default:
			if m := compareChildren(cur, ref, ""); m != "" {
				fails = append(fails, failure{src, m})
			}
		}
	}
	count := 0
	gen = func(prefix string, k int) {
		if len(fails) > 20 {
			return
		}
		if k == 0 {
			check(prefix)
			check(prefix + "<!--trailing-->")
			return
		}
		for i, f := range frags {
			count++
			if k < *n && (count+i)%3 != 0 {
				continue // thin out below the first level
			}
			gen(prefix+f, k-1)
		}
	}
	for _, d := range doctypes {
		for k := 0; k <= *n; k++ {
			gen(d, k)
		}
	}
	// deep and wide
	check("<!DOCTYPE html>" + strings.Repeat("<div>", 300) + "x")
	check("<!DOCTYPE html>" + strings.Repeat("<p>y", 2000))
	sum := map[string]interface{}{
		"what":        "ReadHtml vs the golang.org/x/net/html parse tree of assembled documents that start with a doctype",
		"bound":       fmt.Sprintf("3 doctypes x every sequence of up to %d fragments out of %d (thinned deterministically below the first position), each also with a trailing comment; one 300-deep and one 2000-wide document", *n, len(frags)),
		"documents":   docs,
		"evaluations": docs,
		"distinct":    len(distinct),
		"samples":     samples,
		"failures":    fails,
	}
	b, _ := json.MarshalIndent(sum, "", " ")
	if *outPath != "" {
		os.WriteFile(*outPath, b, 0o644)
	}
	fmt.Println(string(b))
	if len(fails) > 0 {
		os.Exit(1)
	}
}
